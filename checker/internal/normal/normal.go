// Package normal is a source-level normaliser that runs between type checking and SSA
// construction. It makes helper functions transparent: every call of a package function or
// method that is NOT in the table of known functions (known_funcs.txt: the functions of the
// tree the rules were confirmed on) is expanded in place, so that a rule that reads the shape
// of a role-bearing function sees the same shape whether or not parts of it were extracted
// into helpers. On a tree that declares only known functions the normaliser is the identity.
//
// The expansion is semantics preserving by construction (it is ordinary inlining):
//   - the receiver and the arguments are bound, in order, to fresh variables of the declared
//     parameter types;
//   - the results are fresh variables of the declared result types;
//   - `return e1, e2` becomes `r1, r2 = e1, e2; break L` inside `L: switch { default: body }`;
//   - every local object of the callee (parameters, results, variables, labels) is renamed with
//     a suffix unique to the expansion site; a site is skipped when a package-level or universe
//     name the callee refers to is declared locally anywhere in the calling function, or when
//     an imported package name means something else in the calling file (a missing import is added);
//   - callees that defer, recover or start goroutines, are variadic, generic or (mutually)
//     recursive are never expanded, except `defer f(x)` / `go f(x)` itself, where f is replaced
//     by a function literal with f's signature and body.
//
// A call is expanded when it is the whole right-hand side of an assignment / variable
// declaration, an expression statement, the single operand of a return, or the first
// expression evaluated by such a statement (or by an if condition, switch tag or range
// operand) with only identifiers and method selectors evaluated before it. A callee whose
// body is a single `return expr` is substituted as an expression anywhere when its arguments
// are identifiers, literals or field selections of the parameter types.
//
// After each round the package is type-checked again; any error makes the whole normalisation
// an infrastructure failure (never a finding). Fully expanded, otherwise unreferenced
// functions are removed so that no rule analyses a helper out of its context.
package normal

import (
	_ "embed"
	"fmt"
	"go/ast"
	"go/token"
	"go/types"
	"reflect"
	"sort"
	"strconv"
	"strings"

	"golang.org/x/tools/go/ast/astutil"
)

//go:embed known_funcs.txt
var knownText string

// Known returns the table of known functions: key -> signature fingerprint ("" when not recorded).
func Known() map[string]string {
	m := map[string]string{}
	for _, l := range strings.Split(knownText, "\n") {
		l = strings.TrimSpace(l)
		if l != "" && !strings.HasPrefix(l, "#") {
			if strings.HasPrefix(l, "~") {
				continue // plumbing helpers are not "known": see Plumbing
			}
			parts := strings.SplitN(l, "|", 2)
			if len(parts) == 2 {
				m[parts[0]] = parts[1]
			} else {
				m[parts[0]] = ""
			}
		}
	}
	return m
}

// Plumbing returns the functions of the confirmed tree that only pass values along (emit or
// forward a value, get/put a pooled buffer, build a node from its parts). They are marked `~` in
// the table and are expanded at their hand-written call sites like any helper, so that the rules
// see one shape whether or not a later change inlines them by hand; calls from the generated
// parser keep them (the rules that skip generated code must still see their bodies).
func Plumbing() map[string]bool {
	m := map[string]bool{}
	for _, l := range strings.Split(knownText, "\n") {
		l = strings.TrimSpace(l)
		if strings.HasPrefix(l, "~") {
			m[strings.SplitN(l[1:], "|", 2)[0]] = true
		}
	}
	return m
}

// Fingerprint is the receiver type and signature of a declared function, package-relative.
func Fingerprint(pkg *types.Package, fn *types.Func) string {
	q := types.RelativeTo(pkg)
	sig := fn.Type().(*types.Signature)
	recv := ""
	if sig.Recv() != nil {
		recv = types.TypeString(sig.Recv().Type(), q)
	}
	tuple := func(t *types.Tuple) string {
		var parts []string
		for i := 0; i < t.Len(); i++ {
			parts = append(parts, types.TypeString(t.At(i).Type(), q))
		}
		return "(" + strings.Join(parts, ", ") + ")"
	}
	v := ""
	if sig.Variadic() {
		v = "..."
	}
	return recv + " func" + tuple(sig.Params()) + v + " " + tuple(sig.Results())
}

// Key is the table key of a function declaration: "Recv.name" or "name".
func Key(d *ast.FuncDecl) string {
	if d.Recv != nil && len(d.Recv.List) == 1 {
		t := d.Recv.List[0].Type
		for {
			switch x := t.(type) {
			case *ast.StarExpr:
				t = x.X
				continue
			case *ast.ParenExpr:
				t = x.X
				continue
			case *ast.IndexExpr:
				t = x.X
				continue
			}
			break
		}
		if id, ok := t.(*ast.Ident); ok {
			return id.Name + "." + d.Name.Name
		}
	}
	return d.Name.Name
}

// Report says what the normaliser did.
type Report struct {
	Candidates []string // functions outside the known table
	Expanded   map[string]int
	Skipped    []string // "callee at site: reason"
	Removed    []string
	Rounds     int
	Failed     string   // normalisation was abandoned (the source is analysed as written)
	Renamed    []string // "known key -> new key": treated as the known function
	Types      []string // type rewrites (two-valued enumerations, structs written out in their holders)
	Split      []string // "function.variable": local struct variables replaced by one variable per field
}

// Checker type-checks a set of files into a fresh package.
type Checker func(files []*ast.File) (*types.Package, *types.Info, error)

type norm struct {
	fset  *token.FileSet
	files []*ast.File
	pkg   *types.Package
	info  *types.Info
	known map[string]bool
	rep   *Report
	seq   int

	decls       map[*types.Func]*ast.FuncDecl
	fileOf      map[*ast.FuncDecl]*ast.File
	leaf        map[*types.Func]bool
	defOf       map[types.Object]*ast.Ident
	relaxed     bool
	skipOnce    map[string]bool
	plumbing    map[string]bool
	inGenerated bool
	curFn       *ast.FuncDecl
	closureOf   map[*types.Var]*types.Func // local function literals treated as helpers (per round)
	closureDef  map[*types.Func]ast.Stmt
	closureLit  map[*types.Func]*ast.FuncLit

	dirty        map[*ast.FuncDecl]bool // rewritten by a local pass in this round
	addedImports map[*ast.File]map[string]bool
	addedName    map[*ast.ImportSpec]string
}

// Normalize rewrites files in place. It returns the package and info of the final type check
// (the inputs when nothing was expanded).
func Normalize(fset *token.FileSet, files []*ast.File, pkg *types.Package, info *types.Info, knownSigs map[string]string, check Checker) (*types.Package, *types.Info, *Report, error) {
	known := map[string]bool{}
	for k := range knownSigs {
		known[k] = true
	}
	n := &norm{fset: fset, files: files, pkg: pkg, info: info, known: known, rep: &Report{Expanded: map[string]int{}}, skipOnce: map[string]bool{}, plumbing: Plumbing()}
	rawCheck := check
	check = func(fs []*ast.File) (*types.Package, *types.Info, error) {
		undo := n.pruneImports(fs)
		p, i, err := rawCheck(fs)
		if err != nil {
			undo()
		}
		return p, i, err
	}
	// type surgery first: it moves methods between receivers and changes signatures
	for i := 0; i < 24; i++ {
		done := n.typeSurgery()
		if len(done) == 0 {
			break
		}
		n.rep.Types = append(n.rep.Types, done...)
		n.simplifyBoolFlow()
		p2, i2, err := check(files)
		if err != nil {
			return nil, nil, n.rep, fmt.Errorf("normalised source does not type-check after type rewriting (%s): %v", strings.Join(done, "; "), err)
		}
		n.pkg, n.info = p2, i2
		pkg, info = p2, i2
		n.rep.Rounds++
	}
	// a known function that was merely renamed keeps its role: a declaration outside the table
	// whose receiver and signature are those of a known function that is absent from the tree
	// is treated as that function
	present := map[string]bool{}
	for _, f := range files {
		for _, d := range f.Decls {
			if fd, ok := d.(*ast.FuncDecl); ok {
				present[Key(fd)] = true
			}
		}
	}
	absent := map[string][]string{} // fingerprint -> absent known keys
	for k, fp := range knownSigs {
		if !present[k] && fp != "" {
			absent[fp] = append(absent[fp], k)
		}
	}
	for _, f := range files {
		for _, d := range f.Decls {
			fd, ok := d.(*ast.FuncDecl)
			if !ok || fd.Body == nil || known[Key(fd)] {
				continue
			}
			if fn, ok := info.Defs[fd.Name].(*types.Func); ok {
				fp := Fingerprint(pkg, fn)
				if ks := absent[fp]; len(ks) > 0 {
					sort.Strings(ks)
					n.rep.Renamed = append(n.rep.Renamed, ks[0]+" -> "+Key(fd))
					absent[fp] = ks[1:]
					known[Key(fd)] = true
				}
			}
		}
	}
	// a method turned into a plain function or the reverse (same parameters and results): unique
	// match on both sides only
	sigOnly := func(fp string) string {
		if i := strings.Index(fp, " func("); i >= 0 {
			return fp[i+1:]
		}
		return fp
	}
	absentBySig := map[string][]string{}
	for fp, ks := range absent {
		for _, k := range ks {
			absentBySig[sigOnly(fp)] = append(absentBySig[sigOnly(fp)], k)
		}
	}
	newBySig := map[string][]*ast.FuncDecl{}
	for _, f := range files {
		for _, d := range f.Decls {
			fd, ok := d.(*ast.FuncDecl)
			if !ok || fd.Body == nil || known[Key(fd)] {
				continue
			}
			if fn, ok := info.Defs[fd.Name].(*types.Func); ok {
				so := sigOnly(Fingerprint(pkg, fn))
				newBySig[so] = append(newBySig[so], fd)
			}
		}
	}
	for so, ks := range absentBySig {
		if len(ks) == 1 && len(newBySig[so]) == 1 && so != "func() ()" {
			fd := newBySig[so][0]
			n.rep.Renamed = append(n.rep.Renamed, ks[0]+" -> "+Key(fd))
			known[Key(fd)] = true
		}
	}
	sort.Strings(n.rep.Renamed)
	cands := map[string]bool{}
	for _, f := range files {
		for _, d := range f.Decls {
			if fd, ok := d.(*ast.FuncDecl); ok && fd.Body != nil && !known[Key(fd)] && fd.Name.Name != "init" && fd.Name.Name != "_" {
				cands[Key(fd)] = true
			}
		}
	}
	for k := range cands {
		n.rep.Candidates = append(n.rep.Candidates, k)
	}
	sort.Strings(n.rep.Candidates)
	for round := 0; round < 12 && len(cands) > 0; round++ {
		n.collect()
		changed, err := n.round()
		if err != nil {
			return nil, nil, n.rep, err
		}
		if !changed {
			if !n.relaxed {
				n.relaxed = true
				continue
			}
			break
		}
		n.rep.Rounds++
		p2, i2, err := check(files)
		if err != nil {
			return nil, nil, n.rep, fmt.Errorf("normalised source does not type-check after round %d: %v", round+1, err)
		}
		n.pkg, n.info = p2, i2
	}
	// parameter objects are taken apart again (needs current type information; then the callers'
	// struct variables are used field by field only)
	if n.sroaIfaceParams() {
		p2, i2, err := check(files)
		if err != nil {
			return nil, nil, n.rep, fmt.Errorf("normalised source does not type-check after splitting a struct parameter of an interface method: %v", err)
		}
		n.pkg, n.info = p2, i2
		n.rep.Rounds++
	}
	if n.sroaParams() {
		p2, i2, err := check(files)
		if err != nil {
			return nil, nil, n.rep, fmt.Errorf("normalised source does not type-check after splitting struct parameters: %v", err)
		}
		n.pkg, n.info = p2, i2
		n.rep.Rounds++
	}
	// local struct variables that are only used field by field become one variable per field
	if n.rep.Rounds > 0 && n.sroa() {
		p2, i2, err := check(files)
		if err != nil {
			return nil, nil, n.rep, fmt.Errorf("normalised source does not type-check after splitting struct variables: %v", err)
		}
		n.pkg, n.info = p2, i2
	}
	// remove candidates that are no longer referenced
	for iter := 0; iter < 4; iter++ {
		n.collect()
		used := map[types.Object]bool{}
		for id, o := range n.info.Uses {
			if fn, ok := o.(*types.Func); ok {
				if d := n.decls[fn]; d != nil && d.Pos() <= id.Pos() && id.Pos() <= d.End() && n.inDecl(id, d) {
					continue // self reference
				}
				used[fn] = true
			}
		}
		var drop []*ast.FuncDecl
		for fn, d := range n.decls {
			if !used[fn] && n.rep.Expanded[Key(d)] > 0 && !ast.IsExported(d.Name.Name) {
				drop = append(drop, d)
			}
		}
		if len(drop) == 0 {
			break
		}
		dropSet := map[*ast.FuncDecl]bool{}
		for _, d := range drop {
			dropSet[d] = true
		}
		saved := map[*ast.File][]ast.Decl{}
		for _, f := range files {
			saved[f] = f.Decls
			var nd []ast.Decl
			for _, d := range f.Decls {
				if fd, ok := d.(*ast.FuncDecl); ok && dropSet[fd] {
					continue
				}
				nd = append(nd, d)
			}
			f.Decls = nd
		}
		p2, i2, err := check(files)
		if err != nil {
			// a removed method was needed (interface satisfaction): keep everything
			for _, f := range files {
				f.Decls = saved[f]
			}
			break
		}
		for _, d := range drop {
			n.rep.Removed = append(n.rep.Removed, Key(d))
		}
		n.pkg, n.info = p2, i2
	}
	sort.Strings(n.rep.Removed)
	sort.Strings(n.rep.Skipped)
	return n.pkg, n.info, n.rep, nil
}

func (n *norm) inDecl(id *ast.Ident, d *ast.FuncDecl) bool {
	found := false
	ast.Inspect(d, func(x ast.Node) bool {
		if x == ast.Node(id) {
			found = true
		}
		return !found
	})
	return found
}

// collect recomputes the candidate declarations and which of them are leaves.
func (n *norm) collect() {
	n.decls = map[*types.Func]*ast.FuncDecl{}
	n.fileOf = map[*ast.FuncDecl]*ast.File{}
	n.leaf = map[*types.Func]bool{}
	n.closureOf, n.closureDef, n.closureLit = nil, nil, nil
	n.dirty = map[*ast.FuncDecl]bool{}
	n.defOf = map[types.Object]*ast.Ident{}
	for id, o := range n.info.Defs {
		if o != nil {
			n.defOf[o] = id
		}
	}
	for _, f := range n.files {
		for _, d := range f.Decls {
			fd, ok := d.(*ast.FuncDecl)
			if !ok || fd.Body == nil || n.known[Key(fd)] || fd.Name.Name == "init" || fd.Name.Name == "_" {
				continue
			}
			if fn, ok := n.info.Defs[fd.Name].(*types.Func); ok {
				n.decls[fn] = fd
				n.fileOf[fd] = f
			}
		}
	}
	calls := map[*types.Func]map[*types.Func]bool{}
	for fn, d := range n.decls {
		calls[fn] = map[*types.Func]bool{}
		ast.Inspect(d.Body, func(x ast.Node) bool {
			if c, ok := x.(*ast.CallExpr); ok {
				if callee := n.calleeOf(c); callee != nil && n.decls[callee] != nil {
					calls[fn][callee] = true
				}
			}
			return true
		})
	}
	for fn := range n.decls {
		if !n.relaxed {
			n.leaf[fn] = len(calls[fn]) == 0
			continue
		}
		// relaxed: every candidate that is not (mutually) recursive
		seen := map[*types.Func]bool{}
		var reach func(f *types.Func) bool
		reach = func(f *types.Func) bool {
			for g := range calls[f] {
				if g == fn {
					return true
				}
				if !seen[g] {
					seen[g] = true
					if reach(g) {
						return true
					}
				}
			}
			return false
		}
		n.leaf[fn] = !reach(fn)
	}
}

func (n *norm) calleeOf(c *ast.CallExpr) *types.Func {
	fun := ast.Unparen(c.Fun)
	switch f := fun.(type) {
	case *ast.Ident:
		if fn, ok := n.info.Uses[f].(*types.Func); ok {
			return fn
		}
		if v, ok := n.info.Uses[f].(*types.Var); ok && n.closureOf[v] != nil {
			return n.closureOf[v]
		}
	case *ast.SelectorExpr:
		if sel := n.info.Selections[f]; sel != nil {
			if sel.Kind() == types.MethodVal {
				if fn, ok := sel.Obj().(*types.Func); ok {
					if _, isIface := sel.Recv().Underlying().(*types.Interface); !isIface {
						return fn
					}
				}
			}
			return nil
		}
		if fn, ok := n.info.Uses[f.Sel].(*types.Func); ok { // qualified identifier
			return fn
		}
	}
	return nil
}

// eligible: may the body of d be expanded in a non-defer context?
func (n *norm) eligible(d *ast.FuncDecl) string {
	if n.dirty[d] {
		return "rewritten in this round (no type information for its new parts yet)"
	}
	if d.Type.TypeParams != nil && len(d.Type.TypeParams.List) > 0 {
		return "generic"
	}
	if d.Recv != nil {
		if len(d.Recv.List) != 1 {
			return "odd receiver"
		}
		if _, ok := d.Recv.List[0].Type.(*ast.IndexExpr); ok {
			return "generic receiver"
		}
	}
	if pl := d.Type.Params; pl != nil && len(pl.List) > 0 {
		if _, ok := pl.List[len(pl.List)-1].Type.(*ast.Ellipsis); ok {
			return "variadic"
		}
	}
	why := ""
	var visit func(x ast.Node, top bool)
	ast.Inspect(d.Body, func(x ast.Node) bool {
		switch s := x.(type) {
		case *ast.DeferStmt:
			why = "defers"
		case *ast.GoStmt:
			why = "starts a goroutine"
		case *ast.CallExpr:
			if id, ok := ast.Unparen(s.Fun).(*ast.Ident); ok && id.Name == "recover" {
				if _, isB := n.info.Uses[id].(*types.Builtin); isB {
					why = "recovers"
				}
			}
		}
		return true
	})
	_ = visit
	return why
}

// ---- one round -------------------------------------------------------------

func (n *norm) round() (bool, error) {
	changed := false
	for _, f := range n.files {
		file := f
		n.inGenerated = isGenerated(f)
		for _, d := range f.Decls {
			fd, ok := d.(*ast.FuncDecl)
			if !ok || fd.Body == nil {
				continue
			}
			localNames := n.localNames(fd)
			n.curFn = fd
			if !n.inGenerated {
				if n.devirtualise(fd, file) {
					changed = true
					n.dirty[fd] = true
					continue // the rewritten selections need fresh type information
				}
				if n.inlineMethodValues(fd) {
					changed = true
					n.dirty[fd] = true
				}
				n.registerClosures(fd, file)
			}
			// (0) hoist statements out of if/switch init positions when they hold an expandable call
			astutil.Apply(fd.Body, func(c *astutil.Cursor) bool {
				switch s := c.Node().(type) {
				case *ast.IfStmt:
					if s.Init != nil && n.stmtHasSite(s.Init) {
						if _, lab := c.Parent().(*ast.LabeledStmt); !lab {
							init := s.Init
							s.Init = nil
							c.Replace(&ast.BlockStmt{Lbrace: s.Pos(), List: []ast.Stmt{init, s}, Rbrace: s.End()})
							changed = true
						}
					}
				case *ast.SwitchStmt:
					if s.Init != nil && n.stmtHasSite(s.Init) {
						if _, lab := c.Parent().(*ast.LabeledStmt); !lab {
							init := s.Init
							s.Init = nil
							c.Replace(&ast.BlockStmt{Lbrace: s.Pos(), List: []ast.Stmt{init, s}, Rbrace: s.End()})
							changed = true
						}
					}
				}
				return true
			}, nil)
			// (1) expression substitution and statement expansion, post-order
			astutil.Apply(fd.Body, nil, func(c *astutil.Cursor) bool {
				switch s := c.Node().(type) {
				case *ast.CallExpr:
					if _, isStmt := c.Parent().(*ast.ExprStmt); isStmt {
						return true
					}
					if e := n.substitute(s, file, fd, localNames); e != nil {
						c.Replace(e)
						changed = true
					}
				case *ast.DeferStmt:
					if n.literalize(s.Call, file, fd, localNames) {
						changed = true
					}
				case *ast.GoStmt:
					if n.literalize(s.Call, file, fd, localNames) {
						changed = true
					}
				case *ast.ExprStmt, *ast.AssignStmt, *ast.ReturnStmt, *ast.DeclStmt:
					if c.Index() < 0 {
						return true
					}
					if n.expandStmt(c, s.(ast.Stmt), file, fd, localNames) {
						changed = true
					}
				case *ast.IfStmt:
					if n.expandIfJump(c, s, file, fd, localNames) {
						changed = true
					} else if n.expandCond(c, s, &s.Cond, file, fd, localNames) {
						changed = true
					}
				case *ast.SwitchStmt:
					if s.Tag != nil && n.expandCond(c, s, &s.Tag, file, fd, localNames) {
						changed = true
					}
				case *ast.RangeStmt:
					if n.expandCond(c, s, &s.X, file, fd, localNames) {
						changed = true
					}
				}
				return true
			})
			n.removeExpandedClosures(fd)
		}
	}
	return changed, nil
}

func (n *norm) stmtHasSite(s ast.Stmt) bool {
	var e ast.Expr
	switch x := s.(type) {
	case *ast.ExprStmt:
		e = x.X
	case *ast.AssignStmt:
		if len(x.Rhs) == 1 && (x.Tok == token.ASSIGN || x.Tok == token.DEFINE) {
			e = x.Rhs[0]
		}
	}
	if e == nil {
		return false
	}
	call := n.firstEvaluated(e)
	return call != nil
}

// localNames: every name declared inside the function (conservative shadowing test).
func (n *norm) localNames(fd *ast.FuncDecl) map[string]bool {
	m := map[string]bool{}
	ast.Inspect(fd, func(x ast.Node) bool {
		if id, ok := x.(*ast.Ident); ok {
			if o := n.info.Defs[id]; o != nil && o.Parent() != nil && o.Parent() != n.pkg.Scope() {
				m[id.Name] = true
			}
		}
		if ts, ok := x.(*ast.TypeSwitchStmt); ok {
			if as, ok := ts.Assign.(*ast.AssignStmt); ok {
				if id, ok := as.Lhs[0].(*ast.Ident); ok {
					m[id.Name] = true
				}
			}
		}
		return true
	})
	delete(m, fd.Name.Name)
	return m
}

// site: is this call expandable (callee is a leaf candidate with an eligible body)?
func (n *norm) site(call *ast.CallExpr) (*types.Func, *ast.FuncDecl) {
	fn := n.calleeOf(call)
	if fn == nil {
		return nil, nil
	}
	d := n.decls[fn]
	if d == nil || !n.leaf[fn] {
		return nil, nil
	}
	if call.Ellipsis.IsValid() {
		return nil, nil
	}
	if n.inGenerated && n.plumbing[Key(d)] {
		return nil, nil
	}
	return fn, d
}

func isGenerated(f *ast.File) bool {
	for i, cg := range f.Comments {
		if i > 3 {
			break
		}
		for _, c := range cg.List {
			if strings.Contains(c.Text, "Code generated") && strings.Contains(c.Text, "DO NOT EDIT") {
				return true
			}
		}
	}
	return false
}

// trivial: evaluating e has no effect and reads only variables (identifiers, literals, field
// selections, method values of identifiers).
func (n *norm) trivial(e ast.Expr) bool {
	switch x := ast.Unparen(e).(type) {
	case *ast.Ident, *ast.BasicLit:
		return true
	case *ast.SelectorExpr:
		return n.trivial(x.X)
	case *ast.StarExpr:
		return n.trivial(x.X)
	case *ast.UnaryExpr:
		return x.Op != token.ARROW && n.trivial(x.X)
	}
	return false
}

// firstEvaluated returns the expandable call that is the first non-trivial expression evaluated
// when e is evaluated, or nil.
func (n *norm) firstEvaluated(e ast.Expr) *ast.CallExpr {
	switch x := e.(type) {
	case *ast.ParenExpr:
		return n.firstEvaluated(x.X)
	case *ast.UnaryExpr:
		if x.Op == token.ARROW {
			return nil
		}
		return n.firstEvaluated(x.X)
	case *ast.StarExpr:
		return n.firstEvaluated(x.X)
	case *ast.BinaryExpr:
		if !n.trivial(x.X) {
			return n.firstEvaluated(x.X)
		}
		if x.Op == token.LAND || x.Op == token.LOR {
			return nil
		}
		return n.firstEvaluated(x.Y)
	case *ast.SelectorExpr:
		return n.firstEvaluated(x.X)
	case *ast.IndexExpr:
		if !n.trivial(x.X) {
			return n.firstEvaluated(x.X)
		}
		return n.firstEvaluated(x.Index)
	case *ast.TypeAssertExpr:
		return n.firstEvaluated(x.X)
	case *ast.CompositeLit:
		// the operands of a composite literal are evaluated in the order they are written
		for _, el := range x.Elts {
			v := el
			if kv, ok := el.(*ast.KeyValueExpr); ok {
				v = kv.Value
			}
			if n.trivial(v) {
				continue
			}
			return n.firstEvaluated(v)
		}
		return nil
	case *ast.CallExpr:
		if fn, _ := n.site(x); fn != nil {
			return x
		}
		// conversion or ordinary call: function value first, then the arguments in order
		if tv, ok := n.info.Types[x.Fun]; ok && tv.IsType() {
			if len(x.Args) == 1 {
				return n.firstEvaluated(x.Args[0])
			}
			return nil
		}
		if !n.trivial(x.Fun) {
			if sel, ok := ast.Unparen(x.Fun).(*ast.SelectorExpr); ok && !n.trivial(sel.X) {
				return n.firstEvaluated(sel.X)
			}
			return nil
		}
		for _, a := range x.Args {
			if n.trivial(a) {
				continue
			}
			return n.firstEvaluated(a)
		}
	}
	return nil
}

func (n *norm) skip(d *ast.FuncDecl, at token.Pos, why string) {
	key := fmt.Sprintf("%s at %s: %s", Key(d), n.fset.Position(at), why)
	if !n.skipOnce[key] {
		n.skipOnce[key] = true
		n.rep.Skipped = append(n.rep.Skipped, key)
	}
}

// compatible: can the callee's text be placed into the calling function?
func (n *norm) compatible(d *ast.FuncDecl, callerFile *ast.File, localNames map[string]bool) string {
	calleeFile := n.fileOf[d]
	why := ""
	ast.Inspect(d, func(x ast.Node) bool {
		id, ok := x.(*ast.Ident)
		if !ok || id.Name == "_" {
			return true
		}
		o := n.info.Uses[id]
		if o == nil {
			return true
		}
		if pn, ok := o.(*types.PkgName); ok {
			if callerFile != calleeFile && !importsAs(n.info, callerFile, pn) && !n.addImport(callerFile, pn) {
				why = "calling file does not import " + pn.Imported().Path() + " as " + pn.Name()
			}
			if localNames[id.Name] {
				why = "package name " + id.Name + " is declared locally in the caller"
			}
			return true
		}
		if o.Parent() == n.pkg.Scope() || o.Parent() == types.Universe {
			if localNames[id.Name] {
				why = "name " + id.Name + " is declared locally in the caller"
			}
		}
		return true
	})
	return why
}

// addImport gives the calling file the import the callee's text needs (a helper gathered into
// another file takes its imports with it). Refused when the name means something else there.
// Imports that end up unused are removed again before the next type check.
func (n *norm) addImport(f *ast.File, pn *types.PkgName) bool {
	key := pn.Imported().Path() + " as " + pn.Name()
	if n.addedImports[f][key] {
		return true
	}
	if n.pkg.Scope().Lookup(pn.Name()) != nil {
		return false
	}
	for _, spec := range f.Imports {
		var o types.Object
		if spec.Name != nil {
			o = n.info.Defs[spec.Name]
			if spec.Name.Name == "." {
				return false
			}
		} else {
			o = n.info.Implicits[spec]
		}
		if p, ok := o.(*types.PkgName); ok && p.Name() == pn.Name() {
			return false
		}
	}
	spec := &ast.ImportSpec{Path: &ast.BasicLit{Kind: token.STRING, Value: strconv.Quote(pn.Imported().Path())}}
	if pn.Name() != pn.Imported().Name() {
		spec.Name = ast.NewIdent(pn.Name())
	}
	f.Imports = append(f.Imports, spec)
	f.Decls = append([]ast.Decl{&ast.GenDecl{Tok: token.IMPORT, Specs: []ast.Spec{spec}}}, f.Decls...)
	if n.addedImports == nil {
		n.addedImports = map[*ast.File]map[string]bool{}
	}
	if n.addedImports[f] == nil {
		n.addedImports[f] = map[string]bool{}
	}
	n.addedImports[f][key] = true
	if n.addedName == nil {
		n.addedName = map[*ast.ImportSpec]string{}
	}
	n.addedName[spec] = pn.Name()
	return true
}

// pruneImports removes imports no selector uses any more (a helper that was expanded and
// removed leaves its file's import behind; an added import may have stayed unused). It returns
// the function that undoes the removal.
func (n *norm) pruneImports(files []*ast.File) func() {
	type saved struct {
		f       *ast.File
		imports []*ast.ImportSpec
		decls   []ast.Decl
	}
	var undo []saved
	for _, f := range files {
		if isGenerated(f) {
			continue
		}
		usedNames := map[string]bool{}
		ast.Inspect(f, func(x ast.Node) bool {
			if se, ok := x.(*ast.SelectorExpr); ok {
				if id, ok := se.X.(*ast.Ident); ok {
					usedNames[id.Name] = true
				}
			}
			return true
		})
		dead := map[ast.Spec]bool{}
		for _, spec := range f.Imports {
			name := ""
			switch {
			case spec.Name != nil:
				name = spec.Name.Name
			case n.addedName[spec] != "":
				name = n.addedName[spec]
			default:
				if pn, ok := n.info.Implicits[spec].(*types.PkgName); ok {
					name = pn.Name()
				}
			}
			if name == "" || name == "_" || name == "." || usedNames[name] {
				continue
			}
			dead[spec] = true
		}
		if len(dead) == 0 {
			continue
		}
		undo = append(undo, saved{f, f.Imports, f.Decls})
		var imps []*ast.ImportSpec
		for _, spec := range f.Imports {
			if !dead[spec] {
				imps = append(imps, spec)
			} else {
				p, _ := strconv.Unquote(spec.Path.Value)
				for k := range n.addedImports[f] {
					if strings.HasPrefix(k, p+" as ") {
						delete(n.addedImports[f], k)
					}
				}
			}
		}
		f.Imports = imps
		var decls []ast.Decl
		for _, d := range f.Decls {
			gd, ok := d.(*ast.GenDecl)
			if !ok || gd.Tok != token.IMPORT {
				decls = append(decls, d)
				continue
			}
			var specs []ast.Spec
			for _, sp := range gd.Specs {
				if !dead[sp] {
					specs = append(specs, sp)
				}
			}
			if len(specs) == 0 {
				continue
			}
			if len(specs) != len(gd.Specs) {
				cp := *gd
				cp.Specs = specs
				decls = append(decls, &cp)
				continue
			}
			decls = append(decls, d)
		}
		f.Decls = decls
	}
	return func() {
		for _, u := range undo {
			u.f.Imports, u.f.Decls = u.imports, u.decls
		}
	}
}

func importsAs(info *types.Info, f *ast.File, pn *types.PkgName) bool {
	for _, spec := range f.Imports {
		var o types.Object
		if spec.Name != nil {
			o = info.Defs[spec.Name]
		} else {
			o = info.Implicits[spec]
		}
		if p, ok := o.(*types.PkgName); ok && p.Imported() == pn.Imported() && p.Name() == pn.Name() {
			return true
		}
	}
	return false
}

// ---- copying and renaming --------------------------------------------------

var (
	posType    = reflect.TypeOf(token.NoPos)
	objPtrType = reflect.TypeOf((*ast.Object)(nil))
	scopePtr   = reflect.TypeOf((*ast.Scope)(nil))
	commentPtr = reflect.TypeOf((*ast.CommentGroup)(nil))
	identPtr   = reflect.TypeOf((*ast.Ident)(nil))
)

// deepCopy copies an AST; idmap maps original identifiers to their copies.
func deepCopy(v reflect.Value, idmap map[*ast.Ident]*ast.Ident) reflect.Value {
	switch v.Kind() {
	case reflect.Ptr:
		if v.IsNil() {
			return v
		}
		switch v.Type() {
		case objPtrType, scopePtr, commentPtr:
			return reflect.Zero(v.Type())
		}
		nv := reflect.New(v.Type().Elem())
		nv.Elem().Set(deepCopy(v.Elem(), idmap))
		if v.Type() == identPtr {
			idmap[v.Interface().(*ast.Ident)] = nv.Interface().(*ast.Ident)
		}
		return nv
	case reflect.Interface:
		if v.IsNil() {
			return v
		}
		nv := reflect.New(v.Type()).Elem()
		nv.Set(deepCopy(v.Elem(), idmap))
		return nv
	case reflect.Slice:
		if v.IsNil() {
			return v
		}
		nv := reflect.MakeSlice(v.Type(), v.Len(), v.Len())
		for i := 0; i < v.Len(); i++ {
			nv.Index(i).Set(deepCopy(v.Index(i), idmap))
		}
		return nv
	case reflect.Struct:
		nv := reflect.New(v.Type()).Elem()
		for i := 0; i < v.NumField(); i++ {
			if nv.Field(i).CanSet() {
				nv.Field(i).Set(deepCopy(v.Field(i), idmap))
			}
		}
		return nv
	}
	return v
}

func copyDecl(d *ast.FuncDecl) (*ast.FuncDecl, map[*ast.Ident]*ast.Ident) {
	idmap := map[*ast.Ident]*ast.Ident{}
	nd := deepCopy(reflect.ValueOf(d), idmap).Interface().(*ast.FuncDecl)
	nd.Doc = nil
	return nd, idmap
}

func copyExpr(e ast.Expr) ast.Expr {
	idmap := map[*ast.Ident]*ast.Ident{}
	return deepCopy(reflect.ValueOf(&e).Elem(), idmap).Interface().(ast.Expr)
}

// renamedCopy copies d and renames its local objects with the given suffix. It returns the copy,
// and for each local object its new name.
func (n *norm) renamedCopy(d *ast.FuncDecl, suffix string) (*ast.FuncDecl, map[types.Object]string) {
	nd, idmap := copyDecl(d)
	names := map[types.Object]string{}
	local := func(o types.Object) bool {
		if o == nil || o.Pkg() != n.pkg {
			return false
		}
		if o.Parent() == n.pkg.Scope() {
			return false
		}
		if v, ok := o.(*types.Var); ok && v.IsField() {
			return n.declaredIn(o, d)
		}
		if _, ok := o.(*types.PkgName); ok {
			return false
		}
		if f, ok := o.(*types.Func); ok && f.Type().(*types.Signature).Recv() != nil {
			return false
		}
		return n.declaredIn(o, d)
	}
	for orig, cp := range idmap {
		if orig.Name == "_" {
			continue
		}
		o := n.info.Defs[orig]
		if o == nil {
			o = n.info.Uses[orig]
		}
		if o == nil {
			continue
		}
		if orig == d.Name {
			continue
		}
		if local(o) {
			cp.Name = orig.Name + suffix
			names[o] = cp.Name
		}
	}
	// the implicit objects of type switches `switch v := x.(type)`: every clause has its own
	// object, all declared by the same identifier; uses refer to the clause objects
	ast.Inspect(d, func(x ast.Node) bool {
		if cc, ok := x.(*ast.CaseClause); ok {
			if o := n.info.Implicits[cc]; o != nil {
				names[o] = o.Name() + suffix
			}
		}
		if ts, ok := x.(*ast.TypeSwitchStmt); ok {
			if as, ok := ts.Assign.(*ast.AssignStmt); ok && len(as.Lhs) == 1 {
				if id, ok := as.Lhs[0].(*ast.Ident); ok && id.Name != "_" {
					if cp := idmap[id]; cp != nil {
						cp.Name = id.Name + suffix
					}
				}
			}
		}
		return true
	})
	sigObj := map[types.Object]bool{}
	for _, fl := range []*ast.FieldList{d.Recv, d.Type.Params, d.Type.Results} {
		if fl == nil {
			continue
		}
		for _, f := range fl.List {
			for _, nm := range f.Names {
				if o := n.info.Defs[nm]; o != nil {
					sigObj[o] = true
				}
			}
		}
	}
	for orig, cp := range idmap {
		if o := n.info.Uses[orig]; o != nil {
			if nm, ok := names[o]; ok {
				cp.Name = nm
			}
			// the declarations of the receiver, parameters and results are synthesised at the
			// expansion site: their uses must not be ordered against them by position
			if sigObj[o] {
				cp.NamePos = token.NoPos
			}
		}
	}
	return nd, names
}

func (n *norm) declaredIn(o types.Object, d *ast.FuncDecl) bool {
	// an object is local to d when its defining identifier lies in d
	if id := n.defOf[o]; id != nil {
		return n.inDecl(id, d)
	}
	// implicit objects (type switch clause variables)
	found := false
	ast.Inspect(d, func(x ast.Node) bool {
		if cc, ok := x.(*ast.CaseClause); ok && n.info.Implicits[cc] == o {
			found = true
		}
		return !found
	})
	return found
}

func ident(name string) *ast.Ident { return &ast.Ident{Name: name} }

// ---- expansion -------------------------------------------------------------

type expansion struct {
	stmts   []ast.Stmt   // declarations, bindings and the body
	results []*ast.Ident // result variables
	tail    bool         // the callee's returns were kept as returns of the caller
}

// receiverExpr builds the expression bound to the receiver variable.
func (n *norm) receiverExpr(call *ast.CallExpr, fn *types.Func) (ast.Expr, string) {
	sel, ok := ast.Unparen(call.Fun).(*ast.SelectorExpr)
	if !ok {
		return nil, "method not called through a selector"
	}
	s := n.info.Selections[sel]
	if s == nil || s.Kind() != types.MethodVal {
		return nil, "not a method value selection"
	}
	expr := sel.X // the original node: its identifiers are known to the type information
	t := n.info.TypeOf(sel.X)
	path := s.Index()
	for _, idx := range path[:len(path)-1] {
		if p, ok := t.Underlying().(*types.Pointer); ok {
			t = p.Elem()
		}
		st, ok := t.Underlying().(*types.Struct)
		if !ok {
			return nil, "embedding path through a non-struct"
		}
		f := st.Field(idx)
		expr = &ast.SelectorExpr{X: expr, Sel: ident(f.Name())}
		t = f.Type()
	}
	recv := fn.Type().(*types.Signature).Recv()
	_, wantPtr := recv.Type().(*types.Pointer)
	_, havePtr := t.Underlying().(*types.Pointer)
	if _, isNamedPtr := t.(*types.Pointer); !isNamedPtr && havePtr {
		return nil, "named pointer receiver"
	}
	switch {
	case wantPtr && !havePtr:
		expr = &ast.UnaryExpr{Op: token.AND, X: &ast.ParenExpr{X: expr}}
	case !wantPtr && havePtr:
		expr = &ast.StarExpr{X: &ast.ParenExpr{X: expr}}
	}
	return expr, ""
}

// expand builds the expansion of one call. With tailSig (the signature of the function whose
// `return f(x)` this is) and identical result types, the callee's returns stay returns.
func (n *norm) expand(call *ast.CallExpr, fn *types.Func, d *ast.FuncDecl, callerFile *ast.File, localNames map[string]bool, tailSig *types.Signature) (*expansion, string) {
	return n.expandMode(call, fn, d, callerFile, localNames, tailSig, nil)
}

// jumpMode: the call is the whole condition of an if: `return e` becomes a jump to the label of
// the branch e selects (no boolean variable, hence no phi of constants in the SSA form).
type jumpMode struct {
	onTrue, onFalse     string
	usedTrue, usedFalse bool
}

func (n *norm) expandMode(call *ast.CallExpr, fn *types.Func, d *ast.FuncDecl, callerFile *ast.File, localNames map[string]bool, tailSig *types.Signature, jm *jumpMode) (*expansion, string) {
	if why := n.eligible(d); why != "" {
		return nil, why
	}
	if why := n.compatible(d, callerFile, localNames); why != "" {
		return nil, why
	}
	sig := fn.Type().(*types.Signature)
	var recvExpr ast.Expr
	if sig.Recv() != nil {
		var why string
		recvExpr, why = n.receiverExpr(call, fn)
		if recvExpr == nil {
			return nil, why
		}
	}
	if len(call.Args) != sig.Params().Len() {
		return nil, "argument count differs (multi-value call)"
	}
	n.seq++
	suffix := fmt.Sprintf("_i%d", n.seq)
	nd, _ := n.renamedCopy(d, suffix)
	notCopyFree := n.paramsNotCopyFree(d)
	ex := &expansion{}
	bind := func(name *ast.Ident, typ ast.Expr, val ast.Expr, want types.Type) {
		// a parameter the callee never assigns, bound to a caller variable of the same type that
		// is itself assigned only once, is that variable (no copy, hence no new captured cell)
		if name != nil && name.Name != "_" && want != nil && !assignedIn(nd.Body, name.Name) && !notCopyFree[strings.TrimSuffix(name.Name, suffix)] {
			if id, ok := ast.Unparen(val).(*ast.Ident); ok && n.aliasable(id, want) {
				substIdent(nd.Body, name.Name, func() ast.Expr { return &ast.Ident{Name: id.Name} })
				return
			}
			// the address of a local variable is the same whenever it is evaluated
			if u, ok := ast.Unparen(val).(*ast.UnaryExpr); ok && u.Op == token.AND {
				if id, ok := ast.Unparen(u.X).(*ast.Ident); ok {
					if v, isVar := n.info.Uses[id].(*types.Var); isVar && !v.IsField() && v.Parent() != nil && v.Parent() != n.pkg.Scope() {
						if pt, isP := want.(*types.Pointer); isP && types.Identical(pt.Elem(), v.Type()) {
							substIdent(nd.Body, name.Name, func() ast.Expr {
								return &ast.ParenExpr{X: &ast.UnaryExpr{Op: token.AND, X: &ast.Ident{Name: id.Name}}}
							})
							return
						}
					}
				}
			}
		}
		if name == nil || name.Name == "_" {
			ex.stmts = append(ex.stmts, &ast.AssignStmt{Lhs: []ast.Expr{ident("_")}, Tok: token.ASSIGN, Rhs: []ast.Expr{&ast.CallExpr{Fun: &ast.ParenExpr{X: typ}, Args: []ast.Expr{val}}}})
			return
		}
		ex.stmts = append(ex.stmts,
			&ast.DeclStmt{Decl: &ast.GenDecl{Tok: token.VAR, Specs: []ast.Spec{&ast.ValueSpec{Names: []*ast.Ident{ident(name.Name)}, Type: typ, Values: []ast.Expr{val}}}}},
			&ast.AssignStmt{Lhs: []ast.Expr{ident("_")}, Tok: token.ASSIGN, Rhs: []ast.Expr{ident(name.Name)}})
	}
	if recvExpr != nil {
		rf := nd.Recv.List[0]
		var nm *ast.Ident
		if len(rf.Names) == 1 {
			nm = rf.Names[0]
		}
		bind(nm, rf.Type, recvExpr, sig.Recv().Type())
	}
	ai := 0
	if nd.Type.Params != nil {
		for _, f := range nd.Type.Params.List {
			if len(f.Names) == 0 {
				bind(nil, copyExpr(f.Type), call.Args[ai], nil)
				ai++
				continue
			}
			for _, nm := range f.Names {
				bind(nm, copyExpr(f.Type), call.Args[ai], sig.Params().At(ai).Type())
				ai++
			}
		}
	}
	// results
	ri := 0
	if nd.Type.Results != nil {
		for _, f := range nd.Type.Results.List {
			names := f.Names
			if len(names) == 0 {
				names = []*ast.Ident{nil}
			}
			for _, nm := range names {
				var name string
				if nm == nil || nm.Name == "_" {
					name = fmt.Sprintf("r%d%s", ri, suffix)
				} else {
					name = nm.Name
				}
				ri++
				ex.results = append(ex.results, ident(name))
				ex.stmts = append(ex.stmts,
					&ast.DeclStmt{Decl: &ast.GenDecl{Tok: token.VAR, Specs: []ast.Spec{&ast.ValueSpec{Names: []*ast.Ident{ident(name)}, Type: copyExpr(f.Type)}}}},
					&ast.AssignStmt{Lhs: []ast.Expr{ident("_")}, Tok: token.ASSIGN, Rhs: []ast.Expr{ident(name)}})
			}
		}
	}
	// body: returns become assignments to the result variables and a break out of the body
	label := "L" + suffix
	body := nd.Body.List
	nret, lastIsRet := 0, false
	if len(body) > 0 {
		_, lastIsRet = body[len(body)-1].(*ast.ReturnStmt)
	}
	countReturns(nd.Body, &nret)
	needLabel := nret > 1 || (nret == 1 && !lastIsRet)
	tail := false
	if tailSig != nil && tailSig.Results().Len() == sig.Results().Len() && sig.Results().Len() > 0 {
		tail = true
		for i := 0; i < sig.Results().Len(); i++ {
			if !types.Identical(sig.Results().At(i).Type(), tailSig.Results().At(i).Type()) {
				tail = false
			}
		}
	}
	if tail {
		needLabel = false
		ex.tail = true
	}
	if jm != nil {
		needLabel = false
		jm.onTrue += suffix
		jm.onFalse += suffix
	}
	var rewrite func(list []ast.Stmt, top bool) []ast.Stmt
	replaceReturn := func(rs *ast.ReturnStmt, isFinal bool) []ast.Stmt {
		var out []ast.Stmt
		if tail {
			if len(rs.Results) == 0 {
				for _, r := range ex.results {
					rs.Results = append(rs.Results, ident(r.Name))
				}
			}
			return []ast.Stmt{rs}
		}
		if jm != nil {
			var e ast.Expr
			if len(rs.Results) == 1 {
				e = rs.Results[0]
			} else {
				e = ident(ex.results[0].Name)
			}
			jt := &ast.BranchStmt{TokPos: rs.Pos(), Tok: token.GOTO, Label: ident(jm.onTrue)}
			jf := &ast.BranchStmt{TokPos: rs.Pos(), Tok: token.GOTO, Label: ident(jm.onFalse)}
			if id, ok := ast.Unparen(e).(*ast.Ident); ok && (id.Name == "true" || id.Name == "false") {
				if !localNames["true"] && !localNames["false"] {
					if id.Name == "true" {
						jm.usedTrue = true
						return []ast.Stmt{jt}
					}
					jm.usedFalse = true
					return []ast.Stmt{jf}
				}
			}
			jm.usedTrue, jm.usedFalse = true, true
			return []ast.Stmt{&ast.IfStmt{If: rs.Pos(), Cond: e, Body: &ast.BlockStmt{List: []ast.Stmt{jt}}}, jf}
		}
		if len(rs.Results) > 0 {
			lhs := make([]ast.Expr, len(ex.results))
			for i, r := range ex.results {
				lhs[i] = ident(r.Name)
			}
			out = append(out, &ast.AssignStmt{Lhs: lhs, Tok: token.ASSIGN, TokPos: rs.Pos(), Rhs: rs.Results})
		}
		if needLabel && !isFinal {
			out = append(out, &ast.BranchStmt{TokPos: rs.Pos(), Tok: token.BREAK, Label: ident(label)})
		}
		return out
	}
	_ = rewrite
	astutil.Apply(nd.Body, func(c *astutil.Cursor) bool {
		if _, ok := c.Node().(*ast.FuncLit); ok {
			return false
		}
		return true
	}, func(c *astutil.Cursor) bool {
		rs, ok := c.Node().(*ast.ReturnStmt)
		if !ok {
			return true
		}
		final := c.Parent() == ast.Node(nd.Body) && c.Index() == len(nd.Body.List)-1
		repl := replaceReturn(rs, final)
		if tail {
			return true
		}
		if c.Index() >= 0 {
			for _, s := range repl {
				c.InsertBefore(s)
			}
			c.Delete()
		} else {
			c.Replace(&ast.BlockStmt{List: repl})
		}
		return true
	})
	var bodyStmt ast.Stmt
	if needLabel {
		bodyStmt = &ast.LabeledStmt{Label: ident(label), Stmt: &ast.SwitchStmt{Switch: call.Pos(), Body: &ast.BlockStmt{List: []ast.Stmt{&ast.CaseClause{Case: call.Pos(), Body: nd.Body.List}}}}}
	} else {
		bodyStmt = &ast.BlockStmt{Lbrace: call.Pos(), List: nd.Body.List, Rbrace: call.End()}
	}
	ex.stmts = append(ex.stmts, bodyStmt)
	n.rep.Expanded[Key(d)]++
	return ex, ""
}

func countReturns(b *ast.BlockStmt, n *int) {
	ast.Inspect(b, func(x ast.Node) bool {
		switch x.(type) {
		case *ast.FuncLit:
			return false
		case *ast.ReturnStmt:
			*n++
		}
		return true
	})
}

// expandStmt handles a statement in a statement list.
func (n *norm) expandStmt(c *astutil.Cursor, s ast.Stmt, file *ast.File, fd *ast.FuncDecl, localNames map[string]bool) bool {
	var exprs []*ast.Expr
	switch x := s.(type) {
	case *ast.ExprStmt:
		exprs = []*ast.Expr{&x.X}
	case *ast.AssignStmt:
		if len(x.Rhs) != 1 {
			return false
		}
		// the left-hand side operands are evaluated before the right-hand side
		for _, l := range x.Lhs {
			if !n.trivial(l) {
				if ix, ok := l.(*ast.IndexExpr); !ok || !n.trivial(ix.X) || !n.trivial(ix.Index) {
					return false
				}
			}
		}
		exprs = []*ast.Expr{&x.Rhs[0]}
	case *ast.ReturnStmt:
		if len(x.Results) != 1 {
			return false
		}
		exprs = []*ast.Expr{&x.Results[0]}
	case *ast.DeclStmt:
		gd, ok := x.Decl.(*ast.GenDecl)
		if !ok || gd.Tok != token.VAR || len(gd.Specs) != 1 {
			return false
		}
		vs := gd.Specs[0].(*ast.ValueSpec)
		if len(vs.Values) != 1 {
			return false
		}
		exprs = []*ast.Expr{&vs.Values[0]}
	}
	if len(exprs) == 0 {
		return false
	}
	ep := exprs[0]
	call := n.firstEvaluated(*ep)
	if call == nil {
		return false
	}
	fn, d := n.site(call)
	whole := ast.Unparen(*ep) == ast.Expr(call)
	var tailSig *types.Signature
	if _, isRet := s.(*ast.ReturnStmt); isRet && whole {
		tailSig = n.enclosingSig(fd, s)
	}
	ex, why := n.expand(call, fn, d, file, localNames, tailSig)
	if ex == nil {
		n.skip(d, call.Pos(), why)
		return false
	}
	for _, st := range ex.stmts {
		c.InsertBefore(st)
	}
	if ex.tail {
		c.Delete()
		return true
	}
	switch x := s.(type) {
	case *ast.ExprStmt:
		if whole {
			c.Delete()
			return true
		}
	case *ast.AssignStmt:
		if whole {
			x.Rhs = resultExprs(ex, call)
			return true
		}
	case *ast.ReturnStmt:
		if whole {
			x.Results = resultExprs(ex, call)
			return true
		}
	case *ast.DeclStmt:
		if whole {
			vs := x.Decl.(*ast.GenDecl).Specs[0].(*ast.ValueSpec)
			vs.Values = resultExprs(ex, call)
			return true
		}
	}
	// nested: the call yields exactly one value here
	if len(ex.results) != 1 {
		// cannot happen for a type-correct program
		panic("normal: nested call with " + fmt.Sprint(len(ex.results)) + " results")
	}
	replaceExpr(s, call, resultExprs(ex, call)[0])
	return true
}

func resultExprs(ex *expansion, call *ast.CallExpr) []ast.Expr {
	out := make([]ast.Expr, len(ex.results))
	for i, r := range ex.results {
		out[i] = &ast.Ident{Name: r.Name}
	}
	return out
}

// replaceExpr replaces the expression old inside root by repl.
func replaceExpr(root ast.Node, old ast.Expr, repl ast.Expr) {
	astutil.Apply(root, func(c *astutil.Cursor) bool {
		if c.Node() == ast.Node(old) {
			c.Replace(repl)
			return false
		}
		return true
	}, nil)
}

// expandCond handles the condition of an if, the tag of a switch and the operand of a range.
func (n *norm) expandCond(c *astutil.Cursor, s ast.Stmt, ep *ast.Expr, file *ast.File, fd *ast.FuncDecl, localNames map[string]bool) bool {
	if *ep == nil {
		return false
	}
	if _, lab := c.Parent().(*ast.LabeledStmt); lab {
		return false
	}
	switch x := s.(type) {
	case *ast.IfStmt:
		if x.Init != nil {
			return false
		}
	case *ast.SwitchStmt:
		if x.Init != nil {
			return false
		}
	}
	call := n.firstEvaluated(*ep)
	if call == nil {
		return false
	}
	fn, d := n.site(call)
	ex, why := n.expand(call, fn, d, file, localNames, nil)
	if ex == nil {
		n.skip(d, call.Pos(), why)
		return false
	}
	if len(ex.results) != 1 {
		panic("normal: condition call with several results")
	}
	if ast.Unparen(*ep) == ast.Expr(call) {
		*ep = resultExprs(ex, call)[0]
	} else {
		replaceExpr(*ep, call, resultExprs(ex, call)[0])
	}
	if c.Index() >= 0 {
		for _, st := range ex.stmts {
			c.InsertBefore(st)
		}
		return true
	}
	c.Replace(&ast.BlockStmt{Lbrace: s.Pos(), List: append(ex.stmts, s), Rbrace: s.End()})
	return true
}

// literalize: `defer f(x)` becomes `defer func(params) results { body }(x)`.
func (n *norm) literalize(call *ast.CallExpr, file *ast.File, fd *ast.FuncDecl, localNames map[string]bool) bool {
	fn := n.calleeOf(call)
	if fn == nil {
		return false
	}
	d := n.decls[fn]
	if d == nil || !n.leaf[fn] || call.Ellipsis.IsValid() || (n.inGenerated && n.plumbing[Key(d)]) {
		return false
	}
	if d.Type.TypeParams != nil {
		return false
	}
	if why := n.compatible(d, file, localNames); why != "" {
		n.skip(d, call.Pos(), why)
		return false
	}
	sig := fn.Type().(*types.Signature)
	n.seq++
	suffix := fmt.Sprintf("_i%d", n.seq)
	nd, _ := n.renamedCopy(d, suffix)
	ft := &ast.FuncType{Params: &ast.FieldList{}, Results: nd.Type.Results}
	var args []ast.Expr
	if sig.Recv() != nil {
		re, why := n.receiverExpr(call, fn)
		if re == nil {
			n.skip(d, call.Pos(), why)
			return false
		}
		ft.Params.List = append(ft.Params.List, nd.Recv.List[0])
		args = append(args, re)
	}
	// a parameter bound to the address of a variable (`&err`) and never reassigned is replaced by
	// that address in the body: the address does not depend on when the defer statement runs
	ai := 0
	if nd.Type.Params != nil {
		for _, f := range nd.Type.Params.List {
			if len(f.Names) == 0 {
				ft.Params.List = append(ft.Params.List, f)
				args = append(args, call.Args[ai])
				ai++
				continue
			}
			var keep []*ast.Ident
			for _, nm := range f.Names {
				arg := call.Args[ai]
				ai++
				if u, ok := arg.(*ast.UnaryExpr); ok && u.Op == token.AND && nm.Name != "_" {
					if id, ok := u.X.(*ast.Ident); ok && !assignedIn(nd.Body, nm.Name) {
						if _, isVar := n.info.Uses[id].(*types.Var); isVar {
							substIdent(nd.Body, nm.Name, func() ast.Expr {
								return &ast.ParenExpr{X: &ast.UnaryExpr{Op: token.AND, X: &ast.Ident{NamePos: id.NamePos, Name: id.Name}}}
							})
							continue
						}
					}
				}
				keep = append(keep, nm)
				args = append(args, arg)
			}
			if len(keep) > 0 {
				ft.Params.List = append(ft.Params.List, &ast.Field{Names: keep, Type: f.Type})
			}
		}
	}
	call.Fun = &ast.FuncLit{Type: ft, Body: nd.Body}
	call.Args = args
	n.rep.Expanded[Key(d)]++
	return true
}

// substitute: expression-level expansion of a callee whose body is `return expr`.
func (n *norm) substitute(call *ast.CallExpr, file *ast.File, fd *ast.FuncDecl, localNames map[string]bool) ast.Expr {
	fn, d := n.site(call)
	if fn == nil {
		return nil
	}
	if len(d.Body.List) != 1 {
		return nil
	}
	rs, ok := d.Body.List[0].(*ast.ReturnStmt)
	if !ok || len(rs.Results) != 1 {
		return nil
	}
	if n.eligible(d) != "" || n.compatible(d, file, localNames) != "" {
		return nil
	}
	hasLit := false
	ast.Inspect(rs.Results[0], func(x ast.Node) bool {
		if _, ok := x.(*ast.FuncLit); ok {
			hasLit = true
		}
		return true
	})
	if hasLit {
		return nil
	}
	sig := fn.Type().(*types.Signature)
	if len(call.Args) != sig.Params().Len() {
		return nil
	}
	if len(n.paramsNotCopyFree(d)) > 0 {
		return nil // a parameter whose address is taken (or that is assigned) is a copy of its own
	}
	// parameter objects -> argument expressions
	bindings := map[types.Object]ast.Expr{}
	simple := func(e ast.Expr, want types.Type) bool {
		if !n.trivial(e) {
			return false
		}
		tv, ok := n.info.Types[e]
		if !ok {
			return false
		}
		if tv.Value != nil {
			return types.Identical(tv.Type, want)
		}
		return types.Identical(tv.Type, want)
	}
	if sig.Recv() != nil {
		re, _ := n.receiverExpr(call, fn)
		if re == nil || !n.trivial(re) {
			return nil
		}
		if _, isAddr := re.(*ast.UnaryExpr); isAddr {
			return nil
		}
		if _, isStar := re.(*ast.StarExpr); isStar {
			return nil
		}
		rf := d.Recv.List[0]
		if len(rf.Names) == 1 && rf.Names[0].Name != "_" {
			bindings[n.info.Defs[rf.Names[0]]] = re
		}
	}
	ai := 0
	if d.Type.Params != nil {
		for _, f := range d.Type.Params.List {
			if len(f.Names) == 0 {
				if !n.trivial(call.Args[ai]) {
					return nil
				}
				ai++
				continue
			}
			for _, nm := range f.Names {
				o := n.info.Defs[nm]
				if !simple(call.Args[ai], sig.Params().At(ai).Type()) {
					return nil
				}
				if nm.Name != "_" {
					bindings[o] = call.Args[ai]
				}
				ai++
			}
		}
	}
	// the result expression must have the declared result type when substituted (an untyped
	// constant or a value converted implicitly by the return would change type)
	if tv, ok := n.info.Types[rs.Results[0]]; !ok || !types.Identical(tv.Type, sig.Results().At(0).Type()) {
		return nil
	}
	idmap := map[*ast.Ident]*ast.Ident{}
	e := rs.Results[0]
	cp := deepCopy(reflect.ValueOf(&e).Elem(), idmap).Interface().(ast.Expr)
	rev := map[*ast.Ident]*ast.Ident{}
	for o, c := range idmap {
		rev[c] = o
	}
	bad := false
	out := astutil.Apply(&ast.ParenExpr{X: cp}, func(c *astutil.Cursor) bool {
		id, ok := c.Node().(*ast.Ident)
		if !ok {
			return true
		}
		orig := rev[id]
		if orig == nil {
			return true
		}
		if o := n.info.Uses[orig]; o != nil {
			if arg, ok := bindings[o]; ok {
				if _, isSel := c.Parent().(*ast.SelectorExpr); isSel && c.Name() == "Sel" {
					return true
				}
				if kv, isKV := c.Parent().(*ast.KeyValueExpr); isKV && kv.Key == ast.Expr(id) {
					return true
				}
				c.Replace(&ast.ParenExpr{X: copyExpr(arg)})
				return false
			}
		}
		if o := n.info.Defs[orig]; o != nil {
			bad = true // the expression declares something (should not happen without a FuncLit)
		}
		return true
	}, nil)
	if bad {
		return nil
	}
	n.rep.Expanded[Key(d)]++
	return out.(ast.Expr)
}

// enclosingSig: the signature of the innermost function (declaration or literal) containing s.
func (n *norm) enclosingSig(fd *ast.FuncDecl, s ast.Stmt) *types.Signature {
	var stack []ast.Node
	var found *types.Signature
	ast.Inspect(fd, func(x ast.Node) bool {
		if found != nil {
			return false
		}
		if x == nil {
			stack = stack[:len(stack)-1]
			return true
		}
		stack = append(stack, x)
		if x == ast.Node(s) {
			for i := len(stack) - 1; i >= 0; i-- {
				switch f := stack[i].(type) {
				case *ast.FuncLit:
					if sig, ok := n.info.TypeOf(f).(*types.Signature); ok {
						found = sig
					}
					return false
				case *ast.FuncDecl:
					if o, ok := n.info.Defs[f.Name].(*types.Func); ok {
						found = o.Type().(*types.Signature)
					}
					return false
				}
			}
		}
		return true
	})
	return found
}

func terminates(s ast.Stmt) bool {
	switch x := s.(type) {
	case *ast.ReturnStmt:
		return true
	case *ast.BranchStmt:
		return x.Tok == token.GOTO
	case *ast.BlockStmt:
		return len(x.List) > 0 && terminates(x.List[len(x.List)-1])
	case *ast.IfStmt:
		return x.Else != nil && terminates(x.Body) && terminates(x.Else)
	case *ast.LabeledStmt:
		return terminates(x.Stmt)
	case *ast.ExprStmt:
		if c, ok := x.X.(*ast.CallExpr); ok {
			if id, ok := c.Fun.(*ast.Ident); ok && id.Name == "panic" {
				return true
			}
		}
	}
	return false
}

// expandIfJump: `if f(x) { A } else { B }` (or `!f(x)`) with f a boolean helper becomes
//
//	{ bindings; { body of f, returns turned into goto T / goto F }; T: { A; goto E }; F: { B }; E: {} }
func (n *norm) expandIfJump(c *astutil.Cursor, s *ast.IfStmt, file *ast.File, fd *ast.FuncDecl, localNames map[string]bool) bool {
	if s.Init != nil {
		return false
	}
	if _, lab := c.Parent().(*ast.LabeledStmt); lab {
		return false
	}
	cond := ast.Unparen(s.Cond)
	neg := false
	for {
		if u, ok := cond.(*ast.UnaryExpr); ok && u.Op == token.NOT {
			neg = !neg
			cond = ast.Unparen(u.X)
			continue
		}
		break
	}
	call, ok := cond.(*ast.CallExpr)
	if !ok {
		return false
	}
	fn, d := n.site(call)
	if fn == nil {
		return false
	}
	sig := fn.Type().(*types.Signature)
	if sig.Results().Len() != 1 {
		return false
	}
	if b, ok := sig.Results().At(0).Type().Underlying().(*types.Basic); !ok || b.Kind() != types.Bool {
		return false
	}
	if localNames["true"] || localNames["false"] {
		return false
	}
	jm := &jumpMode{onTrue: "T", onFalse: "F"}
	if neg {
		jm.onTrue, jm.onFalse = "F", "T"
	}
	ex, why := n.expandMode(call, fn, d, file, localNames, nil, jm)
	if ex == nil {
		n.skip(d, call.Pos(), why)
		return false
	}
	lt, lf := jm.onTrue, jm.onFalse
	usedT, usedF := jm.usedTrue, jm.usedFalse
	if neg {
		lt, lf = lf, lt
		usedT, usedF = usedF, usedT
	}
	// lt labels the then-branch, lf the else-branch
	end := "E" + lt[1:]
	var list []ast.Stmt
	list = append(list, ex.stmts...)
	thenB := &ast.BlockStmt{Lbrace: s.Body.Lbrace, List: append([]ast.Stmt{}, s.Body.List...), Rbrace: s.Body.Rbrace}
	var elseB ast.Stmt = &ast.BlockStmt{}
	if s.Else != nil {
		elseB = s.Else
		if _, isBlock := elseB.(*ast.BlockStmt); !isBlock {
			elseB = &ast.BlockStmt{List: []ast.Stmt{s.Else}}
		}
	}
	needEnd := !terminates(thenB)
	if needEnd {
		thenB.List = append(thenB.List, &ast.BranchStmt{Tok: token.GOTO, Label: ident(end)})
	}
	if usedT {
		list = append(list, &ast.LabeledStmt{Label: ident(lt), Stmt: thenB})
	}
	if usedF {
		list = append(list, &ast.LabeledStmt{Label: ident(lf), Stmt: elseB})
	} else {
		// no return of the helper selects the else-branch: it is unreachable
	}
	if needEnd && usedT {
		list = append(list, &ast.LabeledStmt{Label: ident(end), Stmt: &ast.BlockStmt{}})
	}
	// the statement list must end in a terminating statement exactly when the if did
	if c.Index() >= 0 {
		for _, st := range list {
			c.InsertBefore(st)
		}
		c.Delete()
		return true
	}
	c.Replace(&ast.BlockStmt{Lbrace: s.Pos(), List: list, Rbrace: s.End()})
	return true
}

// assignedIn: the (uniquely renamed) variable is assigned, incremented or has its address taken.
func assignedIn(body *ast.BlockStmt, name string) bool {
	found := false
	ast.Inspect(body, func(x ast.Node) bool {
		switch s := x.(type) {
		case *ast.AssignStmt:
			for _, l := range s.Lhs {
				if id, ok := ast.Unparen(l).(*ast.Ident); ok && id.Name == name {
					found = true
				}
			}
		case *ast.IncDecStmt:
			if id, ok := ast.Unparen(s.X).(*ast.Ident); ok && id.Name == name {
				found = true
			}
		case *ast.UnaryExpr:
			if id, ok := ast.Unparen(s.X).(*ast.Ident); ok && s.Op == token.AND && id.Name == name {
				found = true
			}
		case *ast.RangeStmt:
			for _, l := range []ast.Expr{s.Key, s.Value} {
				if id, ok := l.(*ast.Ident); ok && id.Name == name {
					found = true
				}
			}
		}
		return true
	})
	return found
}

// substIdent replaces every use of the (uniquely renamed) identifier.
func substIdent(body *ast.BlockStmt, name string, mk func() ast.Expr) {
	astutil.Apply(body, func(c *astutil.Cursor) bool {
		if id, ok := c.Node().(*ast.Ident); ok && id.Name == name {
			if _, isSel := c.Parent().(*ast.SelectorExpr); isSel && c.Name() == "Sel" {
				return true
			}
			c.Replace(mk())
			return false
		}
		return true
	}, nil)
}

// aliasable: id denotes a local variable or parameter of the calling function, of exactly the
// wanted type, that is assigned only by its declaration (never reassigned, incremented, ranged
// into or address-taken anywhere in the function, closures included).
func (n *norm) aliasable(id *ast.Ident, want types.Type) bool {
	obj, ok := n.info.Uses[id].(*types.Var)
	if !ok || obj.IsField() || obj.Parent() == nil || obj.Parent() == n.pkg.Scope() || n.curFn == nil {
		return false
	}
	if !types.Identical(obj.Type(), want) {
		return false
	}
	single := true
	is := func(e ast.Expr) bool {
		e = ast.Unparen(e)
		// a write to a field or element of a struct- or array-valued variable writes the variable
		switch obj.Type().Underlying().(type) {
		case *types.Struct, *types.Array:
			for {
				switch x := e.(type) {
				case *ast.SelectorExpr:
					if t := n.info.TypeOf(x.X); t != nil {
						if _, isStruct := t.Underlying().(*types.Struct); !isStruct {
							return false // through a pointer: not the variable's own storage
						}
					}
					e = ast.Unparen(x.X)
					continue
				case *ast.IndexExpr:
					if t := n.info.TypeOf(x.X); t != nil {
						if _, isArr := t.Underlying().(*types.Array); !isArr {
							return false // an element of a slice or map the variable refers to
						}
					}
					e = ast.Unparen(x.X)
					continue
				}
				break
			}
		}
		x, ok := e.(*ast.Ident)
		return ok && n.info.Uses[x] == types.Object(obj)
	}
	ast.Inspect(n.curFn, func(x ast.Node) bool {
		switch s := x.(type) {
		case *ast.AssignStmt:
			for _, l := range s.Lhs {
				if is(l) {
					single = false
				}
			}
		case *ast.IncDecStmt:
			if is(s.X) {
				single = false
			}
		case *ast.UnaryExpr:
			if s.Op == token.AND && is(s.X) {
				single = false
			}
		case *ast.RangeStmt:
			if s.Key != nil && is(s.Key) || s.Value != nil && is(s.Value) {
				single = false
			}
			// a loop variable is assigned anew in every iteration (one variable for the whole
			// loop before Go 1.22): never an alias
			for _, kv := range []ast.Expr{s.Key, s.Value} {
				if id, ok := kv.(*ast.Ident); ok && n.info.Defs[id] == types.Object(obj) {
					single = false
				}
			}
		case *ast.ForStmt:
			if s.Init != nil {
				ast.Inspect(s.Init, func(y ast.Node) bool {
					if id, ok := y.(*ast.Ident); ok && n.info.Defs[id] == types.Object(obj) {
						single = false
					}
					return true
				})
			}
		}
		return single
	})
	return single
}

// registerClosures: `f := func(…) {…}` where f is never reassigned and only ever called is a
// helper of this one function: its calls are expanded like calls of a declared helper (the
// variables it captures are the caller's own, in scope at every call site; a call site where one
// of them is shadowed is left alone).
func (n *norm) registerClosures(fd *ast.FuncDecl, file *ast.File) {
	if n.closureOf == nil {
		n.closureOf = map[*types.Var]*types.Func{}
		n.closureDef = map[*types.Func]ast.Stmt{}
		n.closureLit = map[*types.Func]*ast.FuncLit{}
	}
	// `_ = f` statements (written by the expansion itself) do not count as uses
	blankUse := map[*ast.Ident]bool{}
	ast.Inspect(fd.Body, func(x ast.Node) bool {
		if as, ok := x.(*ast.AssignStmt); ok && as.Tok == token.ASSIGN && len(as.Lhs) == 1 && len(as.Rhs) == 1 {
			if l, ok := as.Lhs[0].(*ast.Ident); ok && l.Name == "_" {
				if rid, ok := as.Rhs[0].(*ast.Ident); ok {
					blankUse[rid] = true
				}
			}
		}
		return true
	})
	litOf := func(e ast.Expr) *ast.FuncLit {
		e = ast.Unparen(e)
		if l, ok := e.(*ast.FuncLit); ok {
			return l
		}
		// a conversion to a named function type: T(func(...) {...})
		if c, ok := e.(*ast.CallExpr); ok && len(c.Args) == 1 {
			if tv, ok := n.info.Types[c.Fun]; ok && tv.IsType() {
				if l, ok := ast.Unparen(c.Args[0]).(*ast.FuncLit); ok {
					return l
				}
			}
		}
		return nil
	}
	ast.Inspect(fd.Body, func(x ast.Node) bool {
		var def ast.Stmt
		var id *ast.Ident
		var lit *ast.FuncLit
		switch as := x.(type) {
		case *ast.AssignStmt:
			if as.Tok != token.DEFINE || len(as.Lhs) != 1 || len(as.Rhs) != 1 {
				return true
			}
			lit = litOf(as.Rhs[0])
			id, _ = as.Lhs[0].(*ast.Ident)
			def = as
		case *ast.DeclStmt:
			gd, ok := as.Decl.(*ast.GenDecl)
			if !ok || gd.Tok != token.VAR || len(gd.Specs) != 1 {
				return true
			}
			vs := gd.Specs[0].(*ast.ValueSpec)
			if len(vs.Names) != 1 || len(vs.Values) != 1 {
				return true
			}
			lit = litOf(vs.Values[0])
			id = vs.Names[0]
			def = as
		default:
			return true
		}
		if lit == nil || id == nil || id.Name == "_" {
			return true
		}
		as := def
		v, ok := n.info.Defs[id].(*types.Var)
		if !ok || n.closureOf[v] != nil {
			return true
		}
		sig, ok := n.info.TypeOf(lit).(*types.Signature)
		if !ok || sig.Variadic() {
			return true
		}
		// every use is the function position of a call outside the literal, and f is never assigned
		okUses := true
		calls := map[*ast.Ident]bool{}
		ast.Inspect(fd.Body, func(y ast.Node) bool {
			if c, isCall := y.(*ast.CallExpr); isCall {
				if cid, isId := ast.Unparen(c.Fun).(*ast.Ident); isId && n.info.Uses[cid] == types.Object(v) {
					calls[cid] = true
				}
			}
			return true
		})
		ast.Inspect(fd.Body, func(y ast.Node) bool {
			if uid, isId := y.(*ast.Ident); isId && n.info.Uses[uid] == types.Object(v) && !calls[uid] && !blankUse[uid] {
				okUses = false
			}
			return true
		})
		ast.Inspect(lit, func(y ast.Node) bool {
			if uid, isId := y.(*ast.Ident); isId && n.info.Uses[uid] == types.Object(v) {
				okUses = false // recursive
			}
			return true
		})
		if !okUses || len(calls) == 0 {
			return true
		}
		synth := &ast.FuncDecl{Name: &ast.Ident{NamePos: id.NamePos, Name: id.Name}, Type: lit.Type, Body: lit.Body}
		if n.eligible(synth) != "" {
			return true
		}
		// captured variables must denote the same object at every call site
		inLit := map[*ast.Ident]bool{}
		ast.Inspect(lit, func(y ast.Node) bool {
			if did, isId := y.(*ast.Ident); isId {
				inLit[did] = true
			}
			return true
		})
		captured := map[types.Object]bool{}
		ast.Inspect(lit.Body, func(y ast.Node) bool {
			if uid, isId := y.(*ast.Ident); isId {
				if o, isVar := n.info.Uses[uid].(*types.Var); isVar && !o.IsField() && o.Parent() != nil && o.Parent() != n.pkg.Scope() && o.Parent() != types.Universe {
					if did := n.defOf[o]; did == nil || !inLit[did] {
						captured[o] = true
					}
				}
			}
			return true
		})
		// how often each name is declared in the function: a captured name declared once cannot be shadowed
		declCount := map[string]int{}
		ast.Inspect(fd, func(y ast.Node) bool {
			if did, isId := y.(*ast.Ident); isId && n.info.Defs[did] != nil {
				declCount[did.Name]++
			}
			return true
		})
		for cid := range calls {
			if !cid.Pos().IsValid() {
				// a call written by an expansion has no position to look scopes up with
				for o := range captured {
					if declCount[o.Name()] != 1 {
						return true
					}
				}
				continue
			}
			inner := n.pkg.Scope().Innermost(cid.Pos())
			if inner == nil {
				return true
			}
			for o := range captured {
				if _, found := inner.LookupParent(o.Name(), cid.Pos()); found != o {
					return true
				}
			}
		}
		fake := types.NewFunc(id.NamePos, n.pkg, id.Name, sig)
		n.closureOf[v] = fake
		n.closureDef[fake] = as
		n.closureLit[fake] = lit
		n.decls[fake] = synth
		n.fileOf[synth] = file
		leaf := true
		ast.Inspect(lit.Body, func(y ast.Node) bool {
			if c, isCall := y.(*ast.CallExpr); isCall {
				if callee := n.calleeOf(c); callee != nil && n.decls[callee] != nil {
					leaf = false
				}
			}
			return true
		})
		n.leaf[fake] = leaf || n.relaxed
		return true
	})
}

// removeExpandedClosures deletes the definition of a local function literal all of whose calls
// were expanded (it would be an unused variable).
func (n *norm) removeExpandedClosures(fd *ast.FuncDecl) {
	for v, fake := range n.closureOf {
		def := n.closureDef[fake]
		inFn, remaining := false, 0
		blank := map[ast.Stmt]bool{} // `_ = f` statements
		ast.Inspect(fd.Body, func(y ast.Node) bool {
			if y == ast.Node(def) {
				inFn = true
			}
			if as, ok := y.(*ast.AssignStmt); ok && as.Tok == token.ASSIGN && len(as.Lhs) == 1 && len(as.Rhs) == 1 {
				if l, ok := as.Lhs[0].(*ast.Ident); ok && l.Name == "_" {
					if rid, ok := as.Rhs[0].(*ast.Ident); ok && n.info.Uses[rid] == types.Object(v) {
						blank[as] = true
						remaining--
					}
				}
			}
			if uid, isId := y.(*ast.Ident); isId && n.info.Uses[uid] == types.Object(v) {
				remaining++
			}
			return true
		})
		if !inFn || remaining > 0 {
			continue
		}
		astutil.Apply(fd.Body, func(c *astutil.Cursor) bool {
			if st, ok := c.Node().(ast.Stmt); ok && c.Index() >= 0 && (st == def || blank[st]) {
				c.Delete()
				return false
			}
			return true
		}, nil)
		n.rep.Expanded["(closure) "+Key(fd)+"."+v.Name()]++
	}
}

// inlineMethodValues: `f := x.m` (a method value held in a local that is never reassigned and
// only ever called) followed by `f(args)` becomes `x.m(args)`; the definition stays (evaluating a
// method value of a nil interface panics there), with a blank use. x must be an identifier that
// is assigned once, or a chain of field selections on one whose fields are not assigned anywhere
// in the function, and must not be redeclared in the function (no shadowing at the call sites).
func (n *norm) inlineMethodValues(fd *ast.FuncDecl) bool {
	declCount := map[string]int{}
	ast.Inspect(fd, func(y ast.Node) bool {
		if did, isId := y.(*ast.Ident); isId && n.info.Defs[did] != nil {
			declCount[did.Name]++
		}
		return true
	})
	assignedFields := map[string]bool{}
	ast.Inspect(fd.Body, func(y ast.Node) bool {
		switch s := y.(type) {
		case *ast.AssignStmt:
			for _, l := range s.Lhs {
				if sel, ok := ast.Unparen(l).(*ast.SelectorExpr); ok {
					assignedFields[sel.Sel.Name] = true
				}
			}
		case *ast.IncDecStmt:
			if sel, ok := ast.Unparen(s.X).(*ast.SelectorExpr); ok {
				assignedFields[sel.Sel.Name] = true
			}
		case *ast.UnaryExpr:
			if s.Op == token.AND {
				if sel, ok := ast.Unparen(s.X).(*ast.SelectorExpr); ok {
					assignedFields[sel.Sel.Name] = true
				}
			}
		}
		return true
	})
	saveFn := n.curFn
	n.curFn = fd
	defer func() { n.curFn = saveFn }()
	stable := func(e ast.Expr) bool {
		for {
			switch x := ast.Unparen(e).(type) {
			case *ast.Ident:
				v, ok := n.info.Uses[x].(*types.Var)
				if !ok || declCount[x.Name] > 1 {
					return false
				}
				if v.Parent() == n.pkg.Scope() {
					return false
				}
				return n.aliasable(x, v.Type())
			case *ast.SelectorExpr:
				sel := n.info.Selections[x]
				if sel == nil || sel.Kind() != types.FieldVal || assignedFields[x.Sel.Name] {
					return false
				}
				e = x.X
			default:
				return false
			}
		}
	}
	type mv struct {
		v    *types.Var
		recv ast.Expr
		meth string
		def  ast.Stmt
	}
	var found []*mv
	ast.Inspect(fd.Body, func(x ast.Node) bool {
		var id *ast.Ident
		var rhs ast.Expr
		var def ast.Stmt
		switch as := x.(type) {
		case *ast.AssignStmt:
			if as.Tok != token.DEFINE || len(as.Lhs) != 1 || len(as.Rhs) != 1 {
				return true
			}
			id, _ = as.Lhs[0].(*ast.Ident)
			rhs, def = as.Rhs[0], as
		case *ast.DeclStmt:
			gd, ok := as.Decl.(*ast.GenDecl)
			if !ok || gd.Tok != token.VAR || len(gd.Specs) != 1 {
				return true
			}
			vs := gd.Specs[0].(*ast.ValueSpec)
			if len(vs.Names) != 1 || len(vs.Values) != 1 {
				return true
			}
			id, rhs, def = vs.Names[0], vs.Values[0], as
		default:
			return true
		}
		if id == nil || id.Name == "_" {
			return true
		}
		// a conversion to a named function type keeps the function
		if conv, isCall := ast.Unparen(rhs).(*ast.CallExpr); isCall && len(conv.Args) == 1 {
			if tv, ok := n.info.Types[conv.Fun]; ok && tv.IsType() {
				if _, isSig := tv.Type.Underlying().(*types.Signature); isSig {
					rhs = conv.Args[0]
				}
			}
		}
		v, ok := n.info.Defs[id].(*types.Var)
		if !ok {
			return true
		}
		if gid, isId := ast.Unparen(rhs).(*ast.Ident); isId {
			// a declared function under a local name
			if g, ok := n.info.Uses[gid].(*types.Func); ok && g.Parent() == n.pkg.Scope() && declCount[gid.Name] == 0 {
				found = append(found, &mv{v: v, meth: gid.Name, def: def})
			}
			return true
		}
		sel, ok := ast.Unparen(rhs).(*ast.SelectorExpr)
		if !ok {
			return true
		}
		s := n.info.Selections[sel]
		if s == nil || s.Kind() != types.MethodVal || !stable(sel.X) {
			return true
		}
		found = append(found, &mv{v: v, recv: sel.X, meth: sel.Sel.Name, def: def})
		return true
	})
	changed := false
	for _, m := range found {
		// every use is a call position (or a blank use), never reassigned
		okUses, ncalls := true, 0
		calls := map[*ast.Ident]bool{}
		blank := map[*ast.Ident]bool{}
		ast.Inspect(fd.Body, func(y ast.Node) bool {
			switch s := y.(type) {
			case *ast.CallExpr:
				if cid, isId := ast.Unparen(s.Fun).(*ast.Ident); isId && n.info.Uses[cid] == types.Object(m.v) {
					calls[cid] = true
					ncalls++
				}
			case *ast.AssignStmt:
				if s.Tok == token.ASSIGN && len(s.Lhs) == 1 && len(s.Rhs) == 1 {
					if l, ok := s.Lhs[0].(*ast.Ident); ok && l.Name == "_" {
						if rid, ok := s.Rhs[0].(*ast.Ident); ok {
							blank[rid] = true
						}
					}
				}
			}
			return true
		})
		ast.Inspect(fd.Body, func(y ast.Node) bool {
			if uid, isId := y.(*ast.Ident); isId && n.info.Uses[uid] == types.Object(m.v) && !calls[uid] && !blank[uid] {
				okUses = false
			}
			return true
		})
		if !okUses || ncalls == 0 || declCount[m.v.Name()] > 1 {
			continue
		}
		astutil.Apply(fd.Body, nil, func(c *astutil.Cursor) bool {
			call, ok := c.Node().(*ast.CallExpr)
			if !ok {
				return true
			}
			if cid, isId := ast.Unparen(call.Fun).(*ast.Ident); isId && calls[cid] {
				if m.recv == nil {
					call.Fun = ast.NewIdent(m.meth)
				} else {
					call.Fun = &ast.SelectorExpr{X: copyExpr(m.recv), Sel: ast.NewIdent(m.meth)}
				}
			}
			return true
		})
		// the definition and its blank uses go (nothing calls through the variable any more; the
		// bound function would otherwise look referenced as a value)
		astutil.Apply(fd.Body, nil, func(c *astutil.Cursor) bool {
			if c.Index() < 0 {
				return true
			}
			if st, ok := c.Node().(ast.Stmt); ok && st == m.def {
				c.Delete()
				return true
			}
			if as, ok := c.Node().(*ast.AssignStmt); ok && as.Tok == token.ASSIGN && len(as.Lhs) == 1 && len(as.Rhs) == 1 {
				if l, ok := as.Lhs[0].(*ast.Ident); ok && l.Name == "_" {
					if rid, ok := as.Rhs[0].(*ast.Ident); ok && blank[rid] && n.info.Uses[rid] == types.Object(m.v) {
						c.Delete()
					}
				}
			}
			return true
		})
		n.rep.Expanded["(method value) "+Key(fd)+"."+m.v.Name()]++
		changed = true
	}
	return changed
}

// paramsNotCopyFree: the parameters (and receiver) of d that the body assigns, increments,
// takes the address of — explicitly, or implicitly by calling a pointer method on them or slicing
// an array — or ranges into. Such a parameter is a variable of its own in the callee; it may
// never be replaced by the caller's variable or argument expression.
func (n *norm) paramsNotCopyFree(d *ast.FuncDecl) map[string]bool {
	out := map[string]bool{}
	params := map[types.Object]string{}
	for _, fl := range []*ast.FieldList{d.Recv, d.Type.Params} {
		if fl == nil {
			continue
		}
		for _, f := range fl.List {
			for _, nm := range f.Names {
				if o := n.info.Defs[nm]; o != nil {
					params[o] = nm.Name
				}
			}
		}
	}
	is := func(e ast.Expr) (string, bool) {
		id, ok := ast.Unparen(e).(*ast.Ident)
		if !ok {
			return "", false
		}
		name, ok := params[n.info.Uses[id]]
		return name, ok
	}
	// writing a field or element of a struct- or array-valued parameter writes the parameter
	lvalueBase := func(e ast.Expr) (string, bool) {
		e = ast.Unparen(e)
		direct := true
		for {
			// every step must stay inside the variable's own storage: a field of a struct value,
			// an element of an array value (not through a pointer, slice or map on the way)
			switch x := e.(type) {
			case *ast.SelectorExpr:
				if t := n.info.TypeOf(x.X); t != nil {
					if _, isStruct := t.Underlying().(*types.Struct); !isStruct {
						return "", false
					}
				}
				e, direct = ast.Unparen(x.X), false
				continue
			case *ast.IndexExpr:
				if t := n.info.TypeOf(x.X); t != nil {
					if _, isArr := t.Underlying().(*types.Array); !isArr {
						return "", false
					}
				}
				e, direct = ast.Unparen(x.X), false
				continue
			}
			break
		}
		nm, ok := is(e)
		if !ok {
			return "", false
		}
		if !direct {
			switch n.info.TypeOf(e).Underlying().(type) {
			case *types.Struct, *types.Array:
			default:
				return "", false // through a pointer, slice or map: not the parameter's own storage
			}
		}
		return nm, true
	}
	ast.Inspect(d.Body, func(x ast.Node) bool {
		switch s := x.(type) {
		case *ast.AssignStmt:
			for _, l := range s.Lhs {
				if nm, ok := lvalueBase(l); ok {
					out[nm] = true
				}
			}
		case *ast.IncDecStmt:
			if nm, ok := lvalueBase(s.X); ok {
				out[nm] = true
			}
		case *ast.UnaryExpr:
			if s.Op == token.AND {
				if nm, ok := is(s.X); ok {
					out[nm] = true
				}
				// &p.field of a struct-valued parameter addresses the parameter's own storage
				e := ast.Unparen(s.X)
				for {
					if sel, ok := e.(*ast.SelectorExpr); ok {
						e = ast.Unparen(sel.X)
						continue
					}
					if ix, ok := e.(*ast.IndexExpr); ok {
						e = ast.Unparen(ix.X)
						continue
					}
					break
				}
				if nm, ok := is(e); ok {
					if _, isPtr := n.info.TypeOf(e).Underlying().(*types.Pointer); !isPtr {
						out[nm] = true
					}
				}
			}
		case *ast.RangeStmt:
			for _, kv := range []ast.Expr{s.Key, s.Value} {
				if kv != nil {
					if nm, ok := is(kv); ok {
						out[nm] = true
					}
				}
			}
		case *ast.SelectorExpr:
			// a pointer method called on a non-pointer parameter takes its address
			if nm, ok := is(s.X); ok {
				if sel := n.info.Selections[s]; sel != nil && sel.Kind() == types.MethodVal {
					if fn, isFn := sel.Obj().(*types.Func); isFn {
						if recv := fn.Type().(*types.Signature).Recv(); recv != nil {
							_, wantPtr := recv.Type().(*types.Pointer)
							_, havePtr := n.info.TypeOf(s.X).Underlying().(*types.Pointer)
							if wantPtr && !havePtr {
								out[nm] = true
							}
						}
					}
				}
			}
		case *ast.SliceExpr:
			if nm, ok := is(s.X); ok {
				if _, isArr := n.info.TypeOf(s.X).Underlying().(*types.Array); isArr {
					out[nm] = true
				}
			}
		}
		return true
	})
	return out
}
