// Fixture for the normaliser's own differential test: every function except main and the
// "known" ones below is a helper that gets expanded; the program's output must not change.
package main

import (
	"errors"
	"fmt"
	"strings"
)

type node struct {
	name  string
	next  *node
	flags []bool
}

type base struct{ prefix string }

func (b *base) tag(s string) string { return b.prefix + ":" + s }

type wrapper struct {
	*base
	count int
}

var log []string

func emit(s string) { log = append(log, s) }

// ---- helpers (expanded) ----

func isContainer(v interface{}) bool {
	switch v.(type) {
	case map[string]interface{}, []interface{}:
		return true
	}
	return false
}

func classify(v interface{}) (kind string, n int) {
	switch t := v.(type) {
	case []interface{}:
		kind, n = "list", len(t)
		return
	case map[string]interface{}:
		return "map", len(t)
	case nil:
		return "nil", 0
	}
	kind = fmt.Sprintf("%T", v)
	return
}

func both(a, b bool) bool { return a && !b }

func (n *node) depth() int {
	d := 0
	for c := n; c != nil; c = c.next {
		d++
	}
	return d
}

func (n *node) last() *node {
	c := n
	for c.next != nil {
		c = c.next
	}
	return c
}

func (w *wrapper) bump(by int) (int, error) {
	if by < 0 {
		return w.count, errors.New(w.tag("negative"))
	}
	w.count += by
	emit(w.tag(fmt.Sprint(w.count)))
	return w.count, nil
}

func outcome(results []string, deepest error) error {
	if len(results) > 0 {
		return nil
	}
	if deepest == nil {
		return errors.New("none")
	}
	return deepest
}

func finish(errp *error, what string) {
	if x := recover(); x != nil {
		if e, ok := x.(error); ok {
			*errp = e
		}
	}
	emit("finish " + what)
}

func sum(xs []int) int {
	t := 0
	for _, x := range xs {
		if x < 0 {
			continue
		}
		t += x
	}
	return t
}

func twice(x int) int { return double(x) + double(x) }

func double(x int) int {
	if x > 100 {
		return 200
	}
	return 2 * x
}

func fact(n int) int { // recursive: never expanded
	if n <= 1 {
		return 1
	}
	return n * fact(n-1)
}

func newNode(name string, flags ...bool) *node { // variadic: never expanded
	return &node{name: name, flags: flags}
}

func describe(n *node) string {
	var sb strings.Builder
	for c := n; c != nil; c = c.next {
		sb.WriteString(c.name)
		if c.next != nil {
			sb.WriteString(">")
		}
	}
	return sb.String()
}

type tracker struct {
	n    int
	last string
}

func (t *tracker) add(s string) {
	if t.n == 0 || len(s) > len(t.last) {
		t.last = s
	}
	t.n++
}

func (t tracker) summary() string { return fmt.Sprint(t.n, ":", t.last) }

type verdict struct {
	values []int
	each   bool
}

func newVerdict(vs []int, n int) verdict { return verdict{values: vs, each: len(vs) == n} }

func (v verdict) rejects(i int) bool { return v.each && v.values[i] == 0 }

func keep(xs []int, i int, sink *[]func() int) {
	*sink = append(*sink, func() int { return xs[i] })
}

type pair struct {
	list []int
	pick int
}

type chooser interface {
	choose(p pair) int
}

type firstChooser struct{}

func (firstChooser) choose(p pair) int { return p.list[p.pick] }

type lastChooser struct{ bias int }

func (l lastChooser) choose(p pair) int { return p.list[len(p.list)-1-p.pick] + l.bias }

func describePair(p pair, label string) string { return fmt.Sprint(label, len(p.list), p.pick) }

type box struct{ v int }

// takes its parameter by value and returns the address of that copy
func boxed(b box) *box { return &b }

func bumpCopy(b box) int {
	b.v++
	return b.v
}

// ---- known functions (kept) ----

func run(v interface{}, w *wrapper) (err error) {
	defer finish(&err, "run")
	if isContainer(v) {
		emit("container")
	} else {
		emit("scalar")
	}
	if !isContainer(v) {
		emit("not container")
	}
	k, n := classify(v)
	emit(fmt.Sprintf("%s/%d", k, n))
	if c, e := w.bump(n - 1); e != nil {
		emit("bump failed " + e.Error())
	} else if both(c > 1, c > 5) {
		emit("between")
	}
	if n == 3 {
		panic(errors.New("three"))
	}
	return outcome(log[:n%2], nil)
}

func chain() {
	a := newNode("a", true)
	a.next = newNode("b")
	a.next.next = newNode("c", false, true)
	emit(fmt.Sprint(a.depth(), a.last().name, describe(a)))
	emit(fmt.Sprint(sum([]int{1, -2, 3}), twice(7), twice(101), fact(5)))
	for i := 0; i < 3; i++ {
		if x := double(i); x > 1 {
			emit(fmt.Sprint("big", x))
			continue
		}
		emit(fmt.Sprint("small", i))
	}
	switch d := a.depth(); d {
	case 3:
		emit("depth three")
	default:
		emit("other depth")
	}
}

func structs() {
	var t tracker
	for _, s := range []string{"a", "ccc", "bb"} {
		t.add(s)
	}
	emit(t.summary())
	v := newVerdict([]int{1, 0, 2}, 3)
	for i := 0; i < 3; i++ {
		if v.rejects(i) {
			continue
		}
		emit(fmt.Sprint("kept", i))
	}
	// a local function literal that is only called
	total := 0
	addTo := func(k int) {
		if k%2 == 0 {
			total += k
			return
		}
		total -= k
	}
	for _, k := range []int{1, 2, 3, 4} {
		addTo(k)
	}
	addTo(10)
	emit(fmt.Sprint("total", total))
	// loop variables must not be aliased into closures of expanded helpers
	var fs []func() int
	xs := []int{10, 20, 30}
	for i := range xs {
		keep(xs, i, &fs)
	}
	for _, f := range fs {
		emit(fmt.Sprint("closure", f()))
	}
}

func objects() {
	var cs []chooser
	cs = append(cs, firstChooser{}, lastChooser{bias: 100})
	for _, c := range cs {
		p := pair{list: []int{4, 5, 6}, pick: 1}
		emit(fmt.Sprint("choose ", c.choose(p), " ", c.choose(pair{list: []int{9, 8}, pick: 0})))
		emit(describePair(p, "pair"))
	}
	// a method value held in a local and called later
	w := &wrapper{base: &base{prefix: "m"}}
	tag := w.tag
	emit(tag("x") + tag("y"))
}

func copies() {
	orig := box{v: 1}
	p1 := boxed(orig)
	p1.v = 50
	emit(fmt.Sprint("copy ", orig.v, " ", p1.v, " ", bumpCopy(orig), " ", orig.v))
}

// ---- type surgery: an enumeration of two values, a struct that only lives inside another, a
// small array indexed by constants, a held value with a forwarding method ----

type presence uint8

const (
	given presence = iota
	omitted
)

type flags struct{ group, access bool }

func (f *flags) setGroup()     { f.group = true }
func (f *flags) isGroup() bool { return f.group }

type span struct{ lo, hi int }

type pairOf [2]string

const (
	leftSide  = 0
	rightSide = 1
)

type speaker interface{ speak(s string) string }

type loud struct{}

func (loud) speak(s string) string { return s + "!" }

type holderT struct {
	flags
	reach span
	sides pairOf
	when  presence
	voice speaker
}

func (h *holderT) speak(s string) string { return h.voice.speak(s) }

func toPresence(b bool) presence {
	if b {
		return omitted
	}
	return given
}

func surgery() {
	h := &holderT{flags: flags{access: true}, reach: span{lo: 1, hi: 4}, sides: pairOf{"l", "r"}, when: toPresence(true), voice: loud{}}
	h.setGroup()
	var local pairOf
	local[leftSide] = "x"
	local[rightSide] = h.sides[rightSide]
	h2 := holderT{sides: local, when: given}
	state := given
	if h.flags.access {
		state = omitted
	}
	if h.when == omitted && h2.when != omitted {
		emit("surgery: first omitted, second given")
	}
	emit(fmt.Sprint("surgery ", h.isGroup(), h.flags.access, h.reach.lo+h.reach.hi, h.sides[leftSide], h2.sides[leftSide], h2.sides[rightSide], h.speak("hey"), h.when == omitted, h2.when == given, state == omitted, h2.isGroup()))
}

func main() {
	copies()
	surgery()
	structs()
	objects()
	w := &wrapper{base: &base{prefix: "w"}}
	for _, v := range []interface{}{nil, 1.5, []interface{}{1, 2}, map[string]interface{}{"a": 1, "b": 2, "c": 3}, []interface{}{}} {
		err := run(v, w)
		emit(fmt.Sprint("err=", err))
	}
	chain()
	for _, l := range log {
		fmt.Println(l)
	}
}
