package normal

// Type surgery that leaves behaviour alone is undone before anything else looks at the tree:
//
//   - a two-valued enumeration (a named integer type without methods whose only values are the
//     zero value and one declared non-zero constant, compared with == / != and passed along,
//     never converted, counted or switched on) is a bool: the type becomes bool, the non-zero
//     constant true, the zero constant false, `x == nonZero` becomes `x`;
//   - a named array type of at most four elements that is only ever indexed by constants is a
//     struct with one member per element;
//   - a struct type that exists only to be embedded by value (or held by value in a named
//     field) in other struct types — never a variable, parameter, pointer or element type of its
//     own — is written out in its holders: its fields become fields of the holder, its methods
//     methods of each holder, `x.T.f` becomes `x.f`, `S{T: T{f: v}}` becomes `S{f: v}`.
//
//   - a named field whose methods the holder hands through one by one (`func (s *S) m(a) R {
//     return s.f.m(a) }`) is an embedded field; the forwarding methods go.
//
// Types of the confirmed tree (known_types.txt) and types declared in generated files are left
// alone. Both rewrites are checked by the type checker afterwards; a tree they do not fit is
// not rewritten at all (the preconditions are syntactic and strict).

import (
	_ "embed"
	"go/ast"
	"go/constant"
	"go/token"
	"go/types"
	"reflect"
	"sort"
	"strconv"
	"strings"

	"golang.org/x/tools/go/ast/astutil"
)

//go:embed known_types.txt
var knownTypesText string

// KnownTypes: the named types of the confirmed tree.
func KnownTypes() map[string]bool {
	m := map[string]bool{}
	for _, l := range strings.Split(knownTypesText, "\n") {
		l = strings.TrimSpace(l)
		if l != "" && !strings.HasPrefix(l, "#") {
			m[l] = true
		}
	}
	return m
}

type typeDecl struct {
	spec *ast.TypeSpec
	gd   *ast.GenDecl
	file *ast.File
	tn   *types.TypeName
}

func (n *norm) parents() map[ast.Node]ast.Node {
	par := map[ast.Node]ast.Node{}
	for _, f := range n.files {
		var stack []ast.Node
		ast.Inspect(f, func(x ast.Node) bool {
			if x == nil {
				stack = stack[:len(stack)-1]
				return true
			}
			if len(stack) > 0 {
				par[x] = stack[len(stack)-1]
			}
			stack = append(stack, x)
			return true
		})
	}
	return par
}

func (n *norm) typeDecls() []*typeDecl { return n.typeDeclsOpt(false) }

// typeDeclsOpt: the type declarations of hand-written files; those of the confirmed tree only
// when asked for.
func (n *norm) typeDeclsOpt(withKnown bool) []*typeDecl {
	known := KnownTypes()
	if withKnown {
		known = map[string]bool{}
	}
	var out []*typeDecl
	for _, f := range n.files {
		if isGenerated(f) {
			continue
		}
		for _, d := range f.Decls {
			gd, ok := d.(*ast.GenDecl)
			if !ok || gd.Tok != token.TYPE {
				continue
			}
			for _, sp := range gd.Specs {
				ts := sp.(*ast.TypeSpec)
				if ts.Assign != token.NoPos || ts.TypeParams != nil || known[ts.Name.Name] {
					continue
				}
				tn, ok := n.info.Defs[ts.Name].(*types.TypeName)
				if !ok {
					continue
				}
				out = append(out, &typeDecl{spec: ts, gd: gd, file: f, tn: tn})
			}
		}
	}
	sort.Slice(out, func(i, j int) bool { return out[i].tn.Name() < out[j].tn.Name() })
	return out
}

func removeSpec(f *ast.File, gd *ast.GenDecl, sp ast.Spec) {
	var specs []ast.Spec
	for _, s := range gd.Specs {
		if s != sp {
			specs = append(specs, s)
		}
	}
	gd.Specs = specs
	if len(specs) == 0 {
		var decls []ast.Decl
		for _, d := range f.Decls {
			if d != ast.Decl(gd) {
				decls = append(decls, d)
			}
		}
		f.Decls = decls
	}
}

// typeSurgery applies both rewrites once; it reports what it rewrote.
func (n *norm) typeSurgery() []string {
	var done []string
	for _, td := range n.typeDecls() {
		if n.enumToBool(td) {
			done = append(done, "enum "+td.tn.Name()+" -> bool")
		}
	}
	if len(done) > 0 {
		return done // one kind per type check: the struct pass needs fresh type information
	}
	for _, td := range n.typeDeclsOpt(true) { // a known type that is an array now was reshaped
		if n.arrayToStruct(td) {
			done = append(done, "array "+td.tn.Name()+" -> struct")
		}
	}
	if len(done) > 0 {
		return done
	}
	for _, td := range n.typeDeclsOpt(true) {
		if what := n.delegateToEmbed(td); what != "" {
			done = append(done, what)
		}
	}
	if len(done) > 0 {
		return done
	}
	for _, td := range n.typeDecls() {
		if n.flattenStruct(td) {
			done = append(done, "struct "+td.tn.Name()+" written out in its holders")
			return done // holders may nest: one per type check
		}
	}
	return done
}

// ---- two-valued enumeration -> bool -----------------------------------------

func (n *norm) enumToBool(td *typeDecl) bool {
	named, ok := td.tn.Type().(*types.Named)
	if !ok || named.NumMethods() != 0 {
		return false
	}
	basic, ok := named.Underlying().(*types.Basic)
	if !ok || basic.Info()&types.IsInteger == 0 {
		return false
	}
	if n.pkg.Scope().Lookup("bool") != nil || n.pkg.Scope().Lookup("true") != nil || n.pkg.Scope().Lookup("false") != nil {
		return false
	}
	isE := func(t types.Type) bool { return t != nil && types.Identical(t, named) }
	// the constants
	var trueC, falseC *types.Const
	for _, name := range n.pkg.Scope().Names() {
		c, ok := n.pkg.Scope().Lookup(name).(*types.Const)
		if !ok || !isE(c.Type()) {
			continue
		}
		v, exact := constant.Int64Val(c.Val())
		if !exact {
			return false
		}
		if v == 0 {
			if falseC != nil {
				return false
			}
			falseC = c
		} else {
			if trueC != nil {
				return false
			}
			trueC = c
		}
	}
	if trueC == nil {
		return false
	}
	isConst := func(e ast.Expr) *types.Const {
		if id, ok := ast.Unparen(e).(*ast.Ident); ok {
			if c, ok := n.info.Uses[id].(*types.Const); ok && (c == trueC || c == falseC) {
				return c
			}
		}
		return nil
	}
	// the constant declarations: whole declarations of these constants only
	type cdecl struct {
		gd *ast.GenDecl
		f  *ast.File
	}
	var cdecls []cdecl
	for _, f := range n.files {
		for _, d := range f.Decls {
			gd, ok := d.(*ast.GenDecl)
			if !ok || gd.Tok != token.CONST {
				continue
			}
			ours, others := 0, 0
			for _, sp := range gd.Specs {
				for _, nm := range sp.(*ast.ValueSpec).Names {
					if c, ok := n.info.Defs[nm].(*types.Const); ok && (c == trueC || c == falseC) {
						ours++
					} else {
						others++
					}
				}
			}
			if ours > 0 {
				if others > 0 || isGenerated(f) {
					return false
				}
				cdecls = append(cdecls, cdecl{gd, f})
			}
		}
	}
	inConstDecl := func(x ast.Node, par map[ast.Node]ast.Node) bool {
		for p := x; p != nil; p = par[p] {
			for _, cd := range cdecls {
				if p == ast.Node(cd.gd) {
					return true
				}
			}
		}
		return false
	}
	par := n.parents()
	// every use keeps to: compare with == / !=, assign, pass along
	ok = true
	for _, f := range n.files {
		ast.Inspect(f, func(x ast.Node) bool {
			if !ok {
				return false
			}
			switch e := x.(type) {
			case *ast.GenDecl:
				for _, cd := range cdecls {
					if e == cd.gd {
						return false
					}
				}
			case *ast.BinaryExpr:
				tx, ty := n.info.TypeOf(e.X), n.info.TypeOf(e.Y)
				if isE(tx) || isE(ty) {
					if e.Op != token.EQL && e.Op != token.NEQ {
						ok = false
					}
				}
			case *ast.UnaryExpr:
				if isE(n.info.TypeOf(e.X)) && e.Op != token.AND {
					ok = false
				}
			case *ast.BasicLit:
				if isE(n.info.TypeOf(e)) {
					ok = false
				}
			case *ast.IncDecStmt:
				if isE(n.info.TypeOf(e.X)) {
					ok = false
				}
			case *ast.AssignStmt:
				if e.Tok != token.ASSIGN && e.Tok != token.DEFINE {
					for _, l := range e.Lhs {
						if isE(n.info.TypeOf(l)) {
							ok = false
						}
					}
				}
			case *ast.SwitchStmt:
				if e.Tag != nil && isE(n.info.TypeOf(e.Tag)) {
					ok = false
				}
			case *ast.CallExpr:
				if tv, has := n.info.Types[e.Fun]; has && tv.IsType() && len(e.Args) == 1 {
					// a conversion to or from the type
					if isE(tv.Type) || isE(n.info.TypeOf(e.Args[0])) {
						ok = false
					}
				}
			case *ast.IndexExpr:
				if isE(n.info.TypeOf(e.Index)) {
					if _, isMap := n.info.TypeOf(e.X).Underlying().(*types.Map); !isMap {
						ok = false
					}
				}
			case *ast.TypeSwitchStmt:
				// a case of this type next to a bool case would collide; left to the type checker
			}
			return true
		})
	}
	if !ok {
		return false
	}
	// rewrite
	for _, f := range n.files {
		astutil.Apply(f, func(c *astutil.Cursor) bool {
			be, isBE := c.Node().(*ast.BinaryExpr)
			if !isBE || (be.Op != token.EQL && be.Op != token.NEQ) || inConstDecl(be, par) {
				return true
			}
			x, y := be.X, be.Y
			cy := isConst(y)
			if cy == nil {
				if cx := isConst(x); cx != nil {
					x, y, cy = y, x, cx
				} else {
					return true
				}
			}
			if isConst(x) != nil {
				return true // constant against constant: the literals will do
			}
			positive := (cy == trueC) == (be.Op == token.EQL)
			if positive {
				c.Replace(&ast.ParenExpr{X: x})
			} else {
				c.Replace(&ast.UnaryExpr{Op: token.NOT, X: &ast.ParenExpr{X: x}})
			}
			return true
		}, nil)
		astutil.Apply(f, func(c *astutil.Cursor) bool {
			id, isId := c.Node().(*ast.Ident)
			if !isId {
				return true
			}
			switch o := n.info.Uses[id].(type) {
			case *types.Const:
				if o == trueC {
					c.Replace(ast.NewIdent("true"))
				} else if falseC != nil && o == falseC {
					c.Replace(ast.NewIdent("false"))
				}
			case *types.TypeName:
				if o == td.tn {
					c.Replace(ast.NewIdent("bool"))
				}
			}
			return true
		}, nil)
	}
	for _, cd := range cdecls {
		var decls []ast.Decl
		for _, d := range cd.f.Decls {
			if d != ast.Decl(cd.gd) {
				decls = append(decls, d)
			}
		}
		cd.f.Decls = decls
	}
	removeSpec(td.file, td.gd, td.spec)
	return true
}

// ---- a struct held by value inside other structs ------------------------------

type holderUse struct {
	holder *typeDecl
	st     *ast.StructType
	field  *ast.Field
	name   string     // field name (the type name when embedded)
	fvar   *types.Var // the field object
}

// flattenStruct writes the by-value fields of struct type td out in their holders. The type
// itself goes when nothing else uses it; with methods it must be embedded and used for nothing
// else (its methods become methods of each holder).
func (n *norm) flattenStruct(td *typeDecl) bool {
	st, ok := td.spec.Type.(*ast.StructType)
	if !ok || st.Fields == nil {
		return false
	}
	named, ok := td.tn.Type().(*types.Named)
	if !ok {
		return false
	}
	tstruct, ok := named.Underlying().(*types.Struct)
	if !ok {
		return false
	}
	// plain fields only: embedded fields of the struct itself would need their own promotion rules
	var subNames []string
	for _, fl := range st.Fields.List {
		if len(fl.Names) == 0 || fl.Tag != nil {
			return false
		}
		for _, nm := range fl.Names {
			if nm.Name == "_" {
				return false
			}
			subNames = append(subNames, nm.Name)
		}
	}
	par := n.parents()
	decls := map[*types.TypeName]*typeDecl{}
	for _, f := range n.files {
		if isGenerated(f) {
			continue
		}
		for _, d := range f.Decls {
			gd, ok := d.(*ast.GenDecl)
			if !ok || gd.Tok != token.TYPE {
				continue
			}
			for _, sp := range gd.Specs {
				ts := sp.(*ast.TypeSpec)
				if ts.Assign == token.NoPos && ts.TypeParams == nil {
					if tn, ok := n.info.Defs[ts.Name].(*types.TypeName); ok {
						decls[tn] = &typeDecl{spec: ts, gd: gd, file: f, tn: tn}
					}
				}
			}
		}
	}
	var holders []*holderUse
	var methods []*ast.FuncDecl
	methodFile := map[*ast.FuncDecl]*ast.File{}
	otherUses := 0
	inGenerated := false
	for _, f := range n.files {
		ast.Inspect(f, func(x ast.Node) bool {
			id, isId := x.(*ast.Ident)
			if !isId || n.info.Uses[id] != types.Object(td.tn) {
				return true
			}
			if isGenerated(f) {
				if _, isLit := par[id].(*ast.CompositeLit); !isLit {
					inGenerated = true
				}
				return true
			}
			switch p := par[id].(type) {
			case *ast.Field:
				// a field of a holder, by value
				fl, _ := par[p].(*ast.FieldList)
				hst, _ := par[fl].(*ast.StructType)
				hts, _ := par[hst].(*ast.TypeSpec)
				if p.Type != ast.Expr(id) || hst == nil || hts == nil || hst.Fields != fl || len(p.Names) > 1 || p.Tag != nil {
					otherUses++
					return true
				}
				htn, _ := n.info.Defs[hts.Name].(*types.TypeName)
				hd := decls[htn]
				if hd == nil || hd.tn == td.tn {
					otherUses++
					return true
				}
				name := td.tn.Name()
				if len(p.Names) == 1 {
					name = p.Names[0].Name
				}
				var fvar *types.Var
				if hs, ok := htn.Type().Underlying().(*types.Struct); ok {
					for i := 0; i < hs.NumFields(); i++ {
						if hs.Field(i).Name() == name {
							fvar = hs.Field(i)
						}
					}
				}
				if fvar == nil {
					otherUses++
					return true
				}
				holders = append(holders, &holderUse{holder: hd, st: hst, field: p, name: name, fvar: fvar})
			case *ast.CompositeLit:
				// judged below by where the literal stands
			case *ast.StarExpr:
				fld, _ := par[p].(*ast.Field)
				fl, _ := par[fld].(*ast.FieldList)
				fd, _ := par[fl].(*ast.FuncDecl)
				if fd == nil || fd.Recv != fl {
					otherUses++
					return true
				}
				methods = append(methods, fd)
				methodFile[fd] = f
			default:
				otherUses++
			}
			return true
		})
	}
	if inGenerated || len(holders) == 0 {
		return false
	}
	if named.NumMethods() != len(methods) {
		return false // value receivers
	}
	if len(methods) > 0 && otherUses > 0 {
		return false
	}
	fieldOf := map[*types.Var]*holderUse{}
	for _, h := range holders {
		fieldOf[h.fvar] = h
		embedded := len(h.field.Names) == 0
		if len(methods) > 0 && !embedded {
			return false
		}
		// names must stay unique in the holder
		hs := h.holder.tn.Type().Underlying().(*types.Struct)
		taken := map[string]bool{}
		for i := 0; i < hs.NumFields(); i++ {
			if hs.Field(i) != h.fvar {
				taken[hs.Field(i).Name()] = true
			}
		}
		if hn, ok := h.holder.tn.Type().(*types.Named); ok {
			for i := 0; i < hn.NumMethods(); i++ {
				taken[hn.Method(i).Name()] = true
			}
		}
		for _, s := range subNames {
			if taken[n.flatName(h, s)] {
				return false
			}
			taken[n.flatName(h, s)] = true
		}
		for _, m := range methods {
			if taken[m.Name.Name] {
				return false
			}
			taken[m.Name.Name] = true
		}
	}
	// every use of a holder field: a selection that continues into a member, or a key of a
	// holder literal whose value is a literal of the struct or a plain variable / field path
	var pure func(e ast.Expr) bool
	pure = func(e ast.Expr) bool {
		switch x := e.(type) {
		case *ast.Ident:
			_, isVar := n.info.Uses[x].(*types.Var)
			return isVar
		case *ast.ParenExpr:
			return pure(x.X)
		case *ast.SelectorExpr:
			sel := n.info.Selections[x]
			return sel != nil && sel.Kind() == types.FieldVal && !sel.Indirect() && pure(x.X)
		}
		return false
	}
	type selUse struct {
		outer, inner *ast.SelectorExpr
		h            *holderUse
	}
	type keyUse struct {
		kv    *ast.KeyValueExpr
		outer *ast.CompositeLit
		h     *holderUse
	}
	var sels []*selUse
	var keys []*keyUse
	mergedLits := map[*ast.CompositeLit]bool{}
	good := true
	for _, f := range n.files {
		ast.Inspect(f, func(x ast.Node) bool {
			id, isId := x.(*ast.Ident)
			if !isId || !good {
				return true
			}
			fv, _ := n.info.Uses[id].(*types.Var)
			h := fieldOf[fv]
			if fv == nil || h == nil {
				return true
			}
			if kv, isKV := par[id].(*ast.KeyValueExpr); isKV && kv.Key == ast.Expr(id) {
				outer, _ := par[kv].(*ast.CompositeLit)
				if outer == nil {
					good = false
					return true
				}
				switch v := ast.Unparen(kv.Value).(type) {
				case *ast.CompositeLit:
					if tid, ok := v.Type.(*ast.Ident); !ok || n.info.Uses[tid] != types.Object(td.tn) {
						good = false
						return true
					}
					for _, el := range v.Elts {
						if _, isKV := el.(*ast.KeyValueExpr); !isKV && len(v.Elts) != tstruct.NumFields() {
							good = false
						}
					}
					mergedLits[v] = true
				default:
					if !pure(kv.Value) {
						good = false
						return true
					}
				}
				keys = append(keys, &keyUse{kv: kv, outer: outer, h: h})
				return true
			}
			inner, _ := par[id].(*ast.SelectorExpr)
			if inner == nil || inner.Sel != id {
				good = false
				return true
			}
			outer, _ := par[inner].(*ast.SelectorExpr)
			if outer == nil || outer.X != ast.Expr(inner) {
				good = false // the part used as a whole value
				return true
			}
			sels = append(sels, &selUse{outer: outer, inner: inner, h: h})
			return true
		})
	}
	if !good {
		return false
	}
	// positional holder literals would shift
	for _, f := range n.files {
		ast.Inspect(f, func(x ast.Node) bool {
			cl, ok := x.(*ast.CompositeLit)
			if !ok || !good {
				return true
			}
			t := n.info.TypeOf(cl)
			if t == nil {
				return true
			}
			for _, h := range holders {
				if types.Identical(t, h.holder.tn.Type()) {
					for _, el := range cl.Elts {
						if _, isKV := el.(*ast.KeyValueExpr); !isKV {
							good = false
						}
					}
				}
			}
			return true
		})
	}
	if !good {
		return false
	}
	// literals of the struct that stand elsewhere keep the type alive
	litsElsewhere := 0
	for _, f := range n.files {
		ast.Inspect(f, func(x ast.Node) bool {
			if cl, ok := x.(*ast.CompositeLit); ok && !mergedLits[cl] {
				if tid, ok := cl.Type.(*ast.Ident); ok && n.info.Uses[tid] == types.Object(td.tn) {
					litsElsewhere++
				}
			}
			return true
		})
	}
	if len(methods) > 0 && litsElsewhere > 0 {
		return false
	}

	// ---- rewrite ----
	for _, s := range sels {
		s.outer.X = s.inner.X
		if sel := n.info.Selections[s.outer]; sel != nil && sel.Kind() == types.FieldVal {
			s.outer.Sel = ast.NewIdent(n.flatName(s.h, s.outer.Sel.Name))
		}
	}
	for _, ku := range keys {
		var elts []ast.Expr
		switch v := ast.Unparen(ku.kv.Value).(type) {
		case *ast.CompositeLit:
			for i, el := range v.Elts {
				if kv, isKV := el.(*ast.KeyValueExpr); isKV {
					if kid, ok := kv.Key.(*ast.Ident); ok {
						kv.Key = ast.NewIdent(n.flatName(ku.h, kid.Name))
					}
					elts = append(elts, kv)
				} else {
					elts = append(elts, &ast.KeyValueExpr{Key: ast.NewIdent(n.flatName(ku.h, tstruct.Field(i).Name())), Value: el})
				}
			}
		default:
			for i := 0; i < tstruct.NumFields(); i++ {
				elts = append(elts, &ast.KeyValueExpr{
					Key:   ast.NewIdent(n.flatName(ku.h, tstruct.Field(i).Name())),
					Value: &ast.SelectorExpr{X: copyExpr(ku.kv.Value), Sel: ast.NewIdent(tstruct.Field(i).Name())},
				})
			}
		}
		var out []ast.Expr
		for _, el := range ku.outer.Elts {
			if el == ast.Expr(ku.kv) {
				out = append(out, elts...)
			} else {
				out = append(out, el)
			}
		}
		ku.outer.Elts = out
	}
	for _, h := range holders {
		var list []*ast.Field
		for _, fl := range h.st.Fields.List {
			if fl != h.field {
				list = append(list, fl)
				continue
			}
			for _, sub := range st.Fields.List {
				idmap := map[*ast.Ident]*ast.Ident{}
				cp := deepCopy(reflect.ValueOf(sub), idmap).Interface().(*ast.Field)
				cp.Doc, cp.Comment = nil, nil
				for _, nm := range cp.Names {
					nm.Name = n.flatName(h, nm.Name)
				}
				list = append(list, cp)
			}
		}
		h.st.Fields.List = list
	}
	for _, m := range methods {
		f := methodFile[m]
		var decls []ast.Decl
		for _, d := range f.Decls {
			if d != ast.Decl(m) {
				decls = append(decls, d)
				continue
			}
			for _, h := range holders {
				cp, _ := copyDecl(m)
				star := cp.Recv.List[0].Type.(*ast.StarExpr)
				star.X = ast.NewIdent(h.holder.tn.Name())
				decls = append(decls, cp)
			}
		}
		f.Decls = decls
	}
	if otherUses == 0 && litsElsewhere == 0 {
		removeSpec(td.file, td.gd, td.spec)
	}
	return true
}

// flatName: the name a member gets in the holder — its own name when the struct was embedded,
// prefixed with the holder's field name otherwise.
func (n *norm) flatName(h *holderUse, member string) string {
	if len(h.field.Names) == 0 {
		return member
	}
	return h.name + "_" + member
}

// ---- a held value whose methods are handed through one by one --------------------

// delegateToEmbed: a struct with a named field `f T` (or `f *T`) and methods that do nothing but
// `return s.f.m(args...)` under the same name m is the struct that embeds T: the field becomes
// the embedded field and the forwarding methods go.
func (n *norm) delegateToEmbed(td *typeDecl) string {
	st, ok := td.spec.Type.(*ast.StructType)
	if !ok || st.Fields == nil {
		return ""
	}
	named, ok := td.tn.Type().(*types.Named)
	if !ok {
		return ""
	}
	sstruct, ok := named.Underlying().(*types.Struct)
	if !ok {
		return ""
	}
	for _, fl := range st.Fields.List {
		if len(fl.Names) != 1 || fl.Tag != nil {
			continue
		}
		texpr := fl.Type
		if star, ok := texpr.(*ast.StarExpr); ok {
			texpr = star.X
		}
		tid, ok := texpr.(*ast.Ident)
		if !ok {
			continue
		}
		ttn, ok := n.info.Uses[tid].(*types.TypeName)
		if !ok || ttn.Pkg() != n.pkg {
			continue
		}
		fvar, _ := n.info.Defs[fl.Names[0]].(*types.Var)
		if fvar == nil {
			continue
		}
		// the new field name must be free
		free := true
		for i := 0; i < sstruct.NumFields(); i++ {
			if sstruct.Field(i) != fvar && sstruct.Field(i).Name() == ttn.Name() {
				free = false
			}
		}
		for i := 0; i < named.NumMethods(); i++ {
			if named.Method(i).Name() == ttn.Name() {
				free = false
			}
		}
		if !free {
			continue
		}
		// forwarding methods
		type fwd struct {
			fd *ast.FuncDecl
			f  *ast.File
		}
		var fwds []fwd
		for _, f := range n.files {
			if isGenerated(f) {
				continue
			}
			for _, d := range f.Decls {
				fd, ok := d.(*ast.FuncDecl)
				if !ok || fd.Recv == nil || fd.Body == nil || len(fd.Recv.List) != 1 || len(fd.Recv.List[0].Names) != 1 || len(fd.Body.List) != 1 {
					continue
				}
				rt := fd.Recv.List[0].Type
				if star, ok := rt.(*ast.StarExpr); ok {
					rt = star.X
				}
				rid, ok := rt.(*ast.Ident)
				if !ok || n.info.Uses[rid] != types.Object(td.tn) {
					continue
				}
				var call *ast.CallExpr
				switch x := fd.Body.List[0].(type) {
				case *ast.ReturnStmt:
					if len(x.Results) == 1 {
						call, _ = x.Results[0].(*ast.CallExpr)
					}
				case *ast.ExprStmt:
					if fd.Type.Results == nil || len(fd.Type.Results.List) == 0 {
						call, _ = x.X.(*ast.CallExpr)
					}
				}
				if call == nil || call.Ellipsis != token.NoPos {
					continue
				}
				msel, ok := call.Fun.(*ast.SelectorExpr)
				if !ok || msel.Sel.Name != fd.Name.Name {
					continue
				}
				fsel, ok := msel.X.(*ast.SelectorExpr)
				if !ok || n.info.Uses[fsel.Sel] != types.Object(fvar) {
					continue
				}
				rcv, ok := fsel.X.(*ast.Ident)
				if !ok || n.info.Uses[rcv] != n.info.Defs[fd.Recv.List[0].Names[0]] {
					continue
				}
				var params []types.Object
				for _, pf := range fd.Type.Params.List {
					for _, nm := range pf.Names {
						params = append(params, n.info.Defs[nm])
					}
					if len(pf.Names) == 0 {
						params = append(params, nil)
					}
					if _, variadic := pf.Type.(*ast.Ellipsis); variadic {
						params = append(params, nil, nil) // never matches
					}
				}
				if len(params) != len(call.Args) {
					continue
				}
				same := true
				for i, a := range call.Args {
					aid, ok := a.(*ast.Ident)
					if !ok || params[i] == nil || n.info.Uses[aid] != params[i] {
						same = false
					}
				}
				if same {
					fwds = append(fwds, fwd{fd, f})
				}
			}
		}
		if len(fwds) == 0 {
			continue
		}
		// rewrite
		old := fl.Names[0].Name
		for _, f := range n.files {
			ast.Inspect(f, func(x ast.Node) bool {
				if id, ok := x.(*ast.Ident); ok && n.info.Uses[id] == types.Object(fvar) {
					id.Name = ttn.Name()
				}
				return true
			})
		}
		fl.Names = nil
		for _, fw := range fwds {
			var decls []ast.Decl
			for _, d := range fw.f.Decls {
				if d != ast.Decl(fw.fd) {
					decls = append(decls, d)
				}
			}
			fw.f.Decls = decls
		}
		return "field " + td.tn.Name() + "." + old + " with forwarding methods -> embedded " + ttn.Name()
	}
	return ""
}

// ---- a small array indexed by constants only -----------------------------------

// arrayToStruct turns `type A [N]T` (N <= 4) into a struct of N members when every value of
// type A or *A is indexed by constants only, never ranged over, sliced or measured.
func (n *norm) arrayToStruct(td *typeDecl) bool {
	at, ok := td.spec.Type.(*ast.ArrayType)
	if !ok || at.Len == nil {
		return false
	}
	named, ok := td.tn.Type().(*types.Named)
	if !ok {
		return false
	}
	arr, ok := named.Underlying().(*types.Array)
	if !ok || arr.Len() < 1 || arr.Len() > 4 {
		return false
	}
	isA := func(t types.Type) bool {
		if t == nil {
			return false
		}
		if p, ok := t.Underlying().(*types.Pointer); ok && !types.Identical(t, named) {
			t = p.Elem()
		}
		return types.Identical(t, named)
	}
	member := func(i int64) string { return "elem" + string(rune('0'+i)) }
	for i := 0; i < named.NumMethods(); i++ {
		if strings.HasPrefix(named.Method(i).Name(), "elem") {
			return false
		}
	}
	constIndex := func(e ast.Expr) (int64, bool) {
		tv, ok := n.info.Types[e]
		if !ok || tv.Value == nil {
			return 0, false
		}
		v, exact := constant.Int64Val(constant.ToInt(tv.Value))
		if !exact || v < 0 || v >= arr.Len() {
			return 0, false
		}
		return v, true
	}
	good := true
	var idx []*ast.IndexExpr
	var lits []*ast.CompositeLit
	for _, f := range n.files {
		ast.Inspect(f, func(x ast.Node) bool {
			if !good {
				return false
			}
			switch e := x.(type) {
			case *ast.IndexExpr:
				if isA(n.info.TypeOf(e.X)) {
					if _, ok := constIndex(e.Index); !ok {
						good = false
					}
					idx = append(idx, e)
				}
			case *ast.SliceExpr:
				if isA(n.info.TypeOf(e.X)) {
					good = false
				}
			case *ast.RangeStmt:
				if isA(n.info.TypeOf(e.X)) {
					good = false
				}
			case *ast.CallExpr:
				if id, ok := ast.Unparen(e.Fun).(*ast.Ident); ok && (id.Name == "len" || id.Name == "cap") && len(e.Args) == 1 && isA(n.info.TypeOf(e.Args[0])) {
					good = false
				}
				if tv, has := n.info.Types[e.Fun]; has && tv.IsType() && len(e.Args) == 1 {
					if isA(tv.Type) || isA(n.info.TypeOf(e.Args[0])) {
						good = false // conversions between array types
					}
				}
			case *ast.CompositeLit:
				if t := n.info.TypeOf(e); t != nil && types.Identical(t, named) {
					next := int64(0)
					for _, el := range e.Elts {
						if kv, isKV := el.(*ast.KeyValueExpr); isKV {
							v, ok := constIndex(kv.Key)
							if !ok {
								good = false
							}
							next = v + 1
						} else {
							next++
						}
					}
					if next > arr.Len() {
						good = false
					}
					lits = append(lits, e)
				}
			}
			return true
		})
	}
	if !good {
		return false
	}
	// rewrite
	par := n.parents()
	for _, e := range idx {
		v, _ := constIndex(e.Index)
		repl := &ast.SelectorExpr{X: e.X, Sel: ast.NewIdent(member(v))}
		replaceChild(par[e], e, repl)
	}
	for _, cl := range lits {
		next := int64(0)
		for i, el := range cl.Elts {
			if kv, isKV := el.(*ast.KeyValueExpr); isKV {
				v, _ := constIndex(kv.Key)
				kv.Key = ast.NewIdent(member(v))
				next = v + 1
			} else {
				cl.Elts[i] = &ast.KeyValueExpr{Key: ast.NewIdent(member(next)), Value: el}
				next++
			}
		}
	}
	var fields []*ast.Field
	for i := int64(0); i < arr.Len(); i++ {
		fields = append(fields, &ast.Field{Names: []*ast.Ident{ast.NewIdent(member(i))}, Type: copyExpr(at.Elt)})
	}
	td.spec.Type = &ast.StructType{Fields: &ast.FieldList{List: fields}}
	return true
}

// replaceChild replaces the expression old by repl in its parent node.
func replaceChild(parent ast.Node, old, repl ast.Expr) {
	if parent == nil {
		return
	}
	v := reflect.ValueOf(parent).Elem()
	exprType := reflect.TypeOf((*ast.Expr)(nil)).Elem()
	for i := 0; i < v.NumField(); i++ {
		fv := v.Field(i)
		switch {
		case fv.Kind() == reflect.Interface && !fv.IsNil() && fv.CanSet():
			if e, ok := fv.Interface().(ast.Expr); ok && e == old && reflect.TypeOf(repl).Implements(fv.Type()) {
				fv.Set(reflect.ValueOf(repl))
			}
		case fv.Kind() == reflect.Slice && fv.Type().Elem() == exprType:
			for j := 0; j < fv.Len(); j++ {
				if e, ok := fv.Index(j).Interface().(ast.Expr); ok && e == old {
					fv.Index(j).Set(reflect.ValueOf(repl))
				}
			}
		}
	}
}

// simplifyBoolFlow: what a two-valued enumeration leaves behind once it is a bool —
// `if c { return true }; return false` is `return c`, and `x := false; if c { x = true }` is
// `x := c` (c a variable, field or negation of one).
func (n *norm) simplifyBoolFlow() {
	lit := func(e ast.Expr) (bool, bool) {
		if id, ok := ast.Unparen(e).(*ast.Ident); ok {
			switch id.Name {
			case "true":
				return true, true
			case "false":
				return false, true
			}
		}
		return false, false
	}
	var pure func(e ast.Expr) bool
	pure = func(e ast.Expr) bool {
		switch x := e.(type) {
		case *ast.Ident:
			return true
		case *ast.ParenExpr:
			return pure(x.X)
		case *ast.SelectorExpr:
			return pure(x.X)
		case *ast.UnaryExpr:
			return x.Op == token.NOT && pure(x.X)
		}
		return false
	}
	mentions := func(e ast.Expr, name string) bool {
		found := false
		ast.Inspect(e, func(y ast.Node) bool {
			if id, ok := y.(*ast.Ident); ok && id.Name == name {
				found = true
			}
			return true
		})
		return found
	}
	not := func(e ast.Expr) ast.Expr {
		return &ast.UnaryExpr{Op: token.NOT, X: &ast.ParenExpr{X: e}}
	}
	singleReturn := func(st ast.Stmt) (bool, bool) {
		if bl, ok := st.(*ast.BlockStmt); ok && len(bl.List) == 1 {
			st = bl.List[0]
		}
		if r, ok := st.(*ast.ReturnStmt); ok && len(r.Results) == 1 {
			return lit(r.Results[0])
		}
		return false, false
	}
	singleAssign := func(st ast.Stmt) (string, bool, bool) {
		if bl, ok := st.(*ast.BlockStmt); ok && len(bl.List) == 1 {
			st = bl.List[0]
		}
		if as, ok := st.(*ast.AssignStmt); ok && as.Tok == token.ASSIGN && len(as.Lhs) == 1 && len(as.Rhs) == 1 {
			if id, ok := as.Lhs[0].(*ast.Ident); ok {
				v, isLit := lit(as.Rhs[0])
				return id.Name, v, isLit
			}
		}
		return "", false, false
	}
	for _, f := range n.files {
		if isGenerated(f) {
			continue
		}
		ast.Inspect(f, func(x ast.Node) bool {
			bl, ok := x.(*ast.BlockStmt)
			if !ok {
				return true
			}
			for i := 0; i < len(bl.List); i++ {
				ifs, ok := bl.List[i].(*ast.IfStmt)
				if !ok || ifs.Init != nil || !pure(ifs.Cond) {
					continue
				}
				// if c { return A } else { return B }  /  if c { return A }; return B
				if a, okA := singleReturn(ifs.Body); okA {
					if ifs.Else != nil {
						if b, okB := singleReturn(ifs.Else); okB && a != b {
							e := ifs.Cond
							if !a {
								e = not(e)
							}
							bl.List[i] = &ast.ReturnStmt{Results: []ast.Expr{e}}
							continue
						}
					} else if i+1 < len(bl.List) {
						if b, okB := singleReturn(bl.List[i+1]); okB && a != b {
							e := ifs.Cond
							if !a {
								e = not(e)
							}
							bl.List[i] = &ast.ReturnStmt{Results: []ast.Expr{e}}
							bl.List = append(bl.List[:i+1:i+1], bl.List[i+2:]...)
							continue
						}
					}
				}
				// x := B; if c { x = A }
				if ifs.Else == nil && i > 0 {
					if name, a, okA := singleAssign(ifs.Body); okA && !mentions(ifs.Cond, name) {
						if prev, ok := bl.List[i-1].(*ast.AssignStmt); ok && len(prev.Lhs) == 1 && len(prev.Rhs) == 1 && (prev.Tok == token.DEFINE || prev.Tok == token.ASSIGN) {
							if pid, ok := prev.Lhs[0].(*ast.Ident); ok && pid.Name == name {
								if b, okB := lit(prev.Rhs[0]); okB && a != b {
									e := ifs.Cond
									if !a {
										e = not(e)
									}
									prev.Rhs[0] = e
									bl.List = append(bl.List[:i:i], bl.List[i+1:]...)
									i--
									continue
								}
							}
						}
					}
				}
			}
			return true
		})
	}
}

// ---- an interface variable that only ever holds one concrete local ----------------

// devirtualise: `var x I = y` where y is a local of concrete type that is assigned once, x is
// never assigned again and every use of x is a method selection `x.m` — the selections become
// `y.m` (the interface held a copy of y, and y never changes). A method value `y.m` that is not
// called on the spot becomes the function literal that calls it, so that the next round can
// expand the call.
func (n *norm) devirtualise(fd *ast.FuncDecl, file *ast.File) bool {
	saveFn := n.curFn
	n.curFn = fd
	defer func() { n.curFn = saveFn }()
	changed := false
	declCount := map[string]int{}
	ast.Inspect(fd, func(y ast.Node) bool {
		if did, isId := y.(*ast.Ident); isId && n.info.Defs[did] != nil {
			declCount[did.Name]++
		}
		return true
	})
	par := map[ast.Node]ast.Node{}
	var stack []ast.Node
	ast.Inspect(fd, func(x ast.Node) bool {
		if x == nil {
			stack = stack[:len(stack)-1]
			return true
		}
		if len(stack) > 0 {
			par[x] = stack[len(stack)-1]
		}
		stack = append(stack, x)
		return true
	})
	// a pointer-receiver method called on an addressable struct local changes it behind
	// aliasable's back: such a local is not "unchanging"
	mutatedByMethod := map[*types.Var]bool{}
	ast.Inspect(fd.Body, func(x ast.Node) bool {
		se, ok := x.(*ast.SelectorExpr)
		if !ok {
			return true
		}
		sel := n.info.Selections[se]
		if sel == nil || (sel.Kind() != types.MethodVal && sel.Kind() != types.MethodExpr) {
			return true
		}
		id, ok := ast.Unparen(se.X).(*ast.Ident)
		if !ok {
			return true
		}
		v, _ := n.info.Uses[id].(*types.Var)
		fn, _ := sel.Obj().(*types.Func)
		if v == nil || fn == nil {
			return true
		}
		if _, isPtr := v.Type().Underlying().(*types.Pointer); isPtr {
			return true
		}
		if recv := fn.Type().(*types.Signature).Recv(); recv != nil {
			if _, ptrRecv := recv.Type().(*types.Pointer); ptrRecv {
				mutatedByMethod[v] = true
			}
		}
		return true
	})
	// (a) interface variables
	type goneVar struct {
		ds *ast.DeclStmt
		xv *types.Var
	}
	var gone []goneVar
	ast.Inspect(fd.Body, func(x ast.Node) bool {
		ds, ok := x.(*ast.DeclStmt)
		if !ok {
			return true
		}
		gd, ok := ds.Decl.(*ast.GenDecl)
		if !ok || gd.Tok != token.VAR || len(gd.Specs) != 1 {
			return true
		}
		vs := gd.Specs[0].(*ast.ValueSpec)
		if len(vs.Names) != 1 || len(vs.Values) != 1 || vs.Type == nil {
			return true
		}
		xv, _ := n.info.Defs[vs.Names[0]].(*types.Var)
		if xv == nil || declCount[xv.Name()] != 1 {
			return true
		}
		if _, isIface := xv.Type().Underlying().(*types.Interface); !isIface {
			return true
		}
		yid, ok := ast.Unparen(vs.Values[0]).(*ast.Ident)
		if !ok {
			return true
		}
		yv, _ := n.info.Uses[yid].(*types.Var)
		if yv == nil || declCount[yv.Name()] > 1 {
			return true
		}
		if _, isIface := yv.Type().Underlying().(*types.Interface); isIface {
			return true
		}
		if !n.aliasable(yid, yv.Type()) || mutatedByMethod[yv] {
			return true
		}
		// uses of x
		var sels []*ast.SelectorExpr
		okUses := true
		ast.Inspect(fd.Body, func(y ast.Node) bool {
			id, isId := y.(*ast.Ident)
			if !isId || n.info.Uses[id] != types.Object(xv) {
				return true
			}
			switch p := par[id].(type) {
			case *ast.SelectorExpr:
				if p.X == ast.Expr(id) {
					if sel := n.info.Selections[p]; sel != nil && sel.Kind() == types.MethodVal {
						sels = append(sels, p)
						return true
					}
				}
				okUses = false
			case *ast.AssignStmt:
				// `_ = x`
				if p.Tok == token.ASSIGN && len(p.Lhs) == 1 && len(p.Rhs) == 1 && p.Rhs[0] == ast.Expr(id) {
					if l, ok := p.Lhs[0].(*ast.Ident); ok && l.Name == "_" {
						return true
					}
				}
				okUses = false
			default:
				okUses = false
			}
			return true
		})
		if !okUses || len(sels) == 0 {
			return true
		}
		for _, s := range sels {
			s.X = ast.NewIdent(yv.Name())
		}
		gone = append(gone, goneVar{ds, xv})
		n.rep.Expanded["(interface variable) "+Key(fd)+"."+xv.Name()]++
		changed = true
		return true
	})
	for _, g := range gone {
		// the interface variable itself goes (it would keep y in use as a whole value)
		astutil.Apply(fd.Body, nil, func(c *astutil.Cursor) bool {
			if c.Index() < 0 {
				return true
			}
			if st, ok := c.Node().(ast.Stmt); ok && st == ast.Stmt(g.ds) {
				c.Delete()
				return true
			}
			if as, ok := c.Node().(*ast.AssignStmt); ok && as.Tok == token.ASSIGN && len(as.Lhs) == 1 && len(as.Rhs) == 1 {
				if l, ok := as.Lhs[0].(*ast.Ident); ok && l.Name == "_" {
					if rid, ok := as.Rhs[0].(*ast.Ident); ok && n.info.Uses[rid] == types.Object(g.xv) {
						c.Delete()
					}
				}
			}
			return true
		})
	}
	if changed {
		return true // fresh type information first
	}
	// (b) method values of stable concrete locals, outside call position
	astutil.Apply(fd.Body, func(c *astutil.Cursor) bool {
		se, ok := c.Node().(*ast.SelectorExpr)
		if !ok {
			return true
		}
		sel := n.info.Selections[se]
		if sel == nil || sel.Kind() != types.MethodVal {
			return true
		}
		if call, isCall := c.Parent().(*ast.CallExpr); isCall && call.Fun == ast.Expr(se) {
			return true
		}
		// only in value positions the literal can stand in: composite literal elements,
		// key-value values, assignments, call arguments
		switch c.Parent().(type) {
		case *ast.KeyValueExpr, *ast.CompositeLit, *ast.AssignStmt, *ast.CallExpr, *ast.ValueSpec, *ast.ReturnStmt:
		default:
			return true
		}
		yid, ok := ast.Unparen(se.X).(*ast.Ident)
		if !ok {
			return true
		}
		yv, _ := n.info.Uses[yid].(*types.Var)
		if yv == nil || declCount[yv.Name()] > 1 {
			return true
		}
		if _, isIface := yv.Type().Underlying().(*types.Interface); isIface {
			return true
		}
		if !n.aliasable(yid, yv.Type()) || mutatedByMethod[yv] {
			return true
		}
		fn, _ := sel.Obj().(*types.Func)
		if fn == nil {
			return true
		}
		sig := fn.Type().(*types.Signature)
		if sig.Variadic() {
			return true
		}
		ft := &ast.FuncType{Params: &ast.FieldList{}}
		var args []ast.Expr
		for i := 0; i < sig.Params().Len(); i++ {
			te := n.typeExpr(sig.Params().At(i).Type(), file)
			if te == nil {
				return true
			}
			n.seq++
			name := "mv" + strconv.Itoa(n.seq)
			if declCount[name] > 0 {
				return true
			}
			ft.Params.List = append(ft.Params.List, &ast.Field{Names: []*ast.Ident{ast.NewIdent(name)}, Type: te})
			args = append(args, ast.NewIdent(name))
		}
		if sig.Results().Len() > 0 {
			ft.Results = &ast.FieldList{}
			for i := 0; i < sig.Results().Len(); i++ {
				te := n.typeExpr(sig.Results().At(i).Type(), file)
				if te == nil {
					return true
				}
				ft.Results.List = append(ft.Results.List, &ast.Field{Type: te})
			}
		}
		call := &ast.CallExpr{Fun: &ast.SelectorExpr{X: ast.NewIdent(yv.Name()), Sel: ast.NewIdent(se.Sel.Name)}, Args: args}
		var body ast.Stmt = &ast.ExprStmt{X: call}
		if sig.Results().Len() > 0 {
			body = &ast.ReturnStmt{Results: []ast.Expr{call}}
		}
		c.Replace(&ast.FuncLit{Type: ft, Body: &ast.BlockStmt{List: []ast.Stmt{body}}})
		n.rep.Expanded["(method value) "+Key(fd)+"."+yv.Name()+"."+se.Sel.Name]++
		changed = true
		return false
	}, nil)
	return changed
}
