package normal

import (
	"fmt"
	"go/ast"
	"go/token"
	"go/types"
	"sort"

	"golang.org/x/tools/go/ast/astutil"
)

// Scalar replacement of local struct variables.
//
// A refactoring that groups a few locals into a small struct ("tracker", "verdict", "bounds")
// changes the SSA form a great deal although nothing changes for the program: go/ssa keeps a
// struct variable in memory, so every field becomes a load or store through a FieldAddr, and
// no rule that follows a value sees through it. After the helpers (including the new type's
// methods) are expanded, such a variable is typically used only field by field. The pass below
// splits a local variable v of struct type into one variable per field when EVERY use of v in
// its function is one of
//
//	v.f   (&v).f              a direct field (read, written, or address-free operand)
//	v = T{...}  v := T{...}   a composite literal of its own type (keyed or positional)
//	v = w       v := w        a whole copy from/to another variable that is split too
//	var v T     var v T = …   its declaration (with the same right-hand sides)
//	_ = v
//
// Anything else (address taken for another purpose, passed, returned, compared, ranged over,
// captured by reflection...) leaves the variable alone. The rewrite keeps evaluation order:
// a composite literal evaluates its operands left to right and then assigns, and so does the
// tuple assignment that replaces it; omitted fields are assigned the zero value `*new(T)`.
func (n *norm) sroa() bool {
	changed := false
	for _, f := range n.files {
		if isGenerated(f) {
			continue
		}
		for _, d := range f.Decls {
			fd, ok := d.(*ast.FuncDecl)
			if !ok || fd.Body == nil {
				continue
			}
			if n.sroaFunc(f, fd) {
				changed = true
			}
		}
	}
	return changed
}

type sroaVar struct {
	obj    *types.Var
	st     *types.Struct
	ok     bool
	copies []*types.Var // variables it is copied from / to
	names  []string     // scalar names per field
}

func (n *norm) sroaFunc(file *ast.File, fd *ast.FuncDecl) bool {
	// candidates: variables declared in the body with a struct type
	cands := map[*types.Var]*sroaVar{}
	ast.Inspect(fd.Body, func(x ast.Node) bool {
		id, ok := x.(*ast.Ident)
		if !ok {
			return true
		}
		v, ok := n.info.Defs[id].(*types.Var)
		if !ok || v.IsField() || id.Name == "_" {
			return true
		}
		st, ok := v.Type().Underlying().(*types.Struct)
		if !ok || st.NumFields() == 0 || st.NumFields() > 8 {
			return true
		}
		for i := 0; i < st.NumFields(); i++ {
			if st.Field(i).Embedded() || st.Field(i).Name() == "_" {
				return true
			}
		}
		cands[v] = &sroaVar{obj: v, st: st, ok: true}
		return true
	})
	if len(cands) == 0 {
		return false
	}
	// parameters, results and type-switch variables are never candidates (not in Defs of the body
	// as plain declarations we can rewrite): keep only those declared by :=, var
	declared := map[*types.Var]bool{}
	ast.Inspect(fd.Body, func(x ast.Node) bool {
		switch s := x.(type) {
		case *ast.AssignStmt:
			if s.Tok == token.DEFINE {
				for _, l := range s.Lhs {
					if id, ok := l.(*ast.Ident); ok {
						if v, ok := n.info.Defs[id].(*types.Var); ok {
							declared[v] = true
						}
					}
				}
			}
		case *ast.ValueSpec:
			for _, id := range s.Names {
				if v, ok := n.info.Defs[id].(*types.Var); ok {
					declared[v] = true
				}
			}
		case *ast.RangeStmt:
			for _, kv := range []ast.Expr{s.Key, s.Value} {
				if id, ok := kv.(*ast.Ident); ok {
					if v, ok := n.info.Defs[id].(*types.Var); ok {
						delete(declared, v)
						if c := cands[v]; c != nil {
							c.ok = false
						}
					}
				}
			}
		}
		return true
	})
	for v, c := range cands {
		if !declared[v] {
			c.ok = false
		}
	}
	varOf := func(e ast.Expr) *sroaVar {
		id, ok := ast.Unparen(e).(*ast.Ident)
		if !ok {
			return nil
		}
		o := n.info.Uses[id]
		if o == nil {
			o = n.info.Defs[id]
		}
		v, ok := o.(*types.Var)
		if !ok {
			return nil
		}
		return cands[v]
	}
	isOwnLit := func(e ast.Expr, c *sroaVar) bool {
		cl, ok := ast.Unparen(e).(*ast.CompositeLit)
		if !ok {
			return false
		}
		tv, ok := n.info.Types[cl]
		if !ok || !types.Identical(tv.Type, c.obj.Type()) {
			return false
		}
		keyed := false
		for _, el := range cl.Elts {
			if _, isKV := el.(*ast.KeyValueExpr); isKV {
				keyed = true
			}
		}
		if !keyed && len(cl.Elts) != 0 && len(cl.Elts) != c.st.NumFields() {
			return false
		}
		return true
	}
	rhsOK := func(e ast.Expr, c *sroaVar) bool {
		if isOwnLit(e, c) {
			return true
		}
		if w := varOf(e); w != nil && w != c && types.Identical(w.obj.Type(), c.obj.Type()) {
			c.copies = append(c.copies, w.obj)
			w.copies = append(w.copies, c.obj)
			return true
		}
		return false
	}
	// classify every use
	handled := map[*ast.Ident]bool{}
	astutil.Apply(fd.Body, func(cur *astutil.Cursor) bool {
		switch s := cur.Node().(type) {
		case *ast.SelectorExpr:
			x := ast.Unparen(s.X)
			if u, ok := x.(*ast.UnaryExpr); ok && u.Op == token.AND {
				x = ast.Unparen(u.X)
			}
			if id, ok := x.(*ast.Ident); ok {
				if c := varOf(id); c != nil {
					if sel := n.info.Selections[s]; sel != nil && sel.Kind() == types.FieldVal && len(sel.Index()) == 1 {
						// `&v.f` takes the address of the field: the scalar would have to be addressable
						// in the same way, which it is (a variable); allowed
						handled[id] = true
					}
				}
			}
		case *ast.AssignStmt:
			if s.Tok != token.ASSIGN && s.Tok != token.DEFINE {
				return true
			}
			if len(s.Lhs) == len(s.Rhs) {
				for i, l := range s.Lhs {
					if c := varOf(l); c != nil {
						if rhsOK(s.Rhs[i], c) {
							handled[ast.Unparen(l).(*ast.Ident)] = true
							if w := varOf(s.Rhs[i]); w != nil {
								handled[ast.Unparen(s.Rhs[i]).(*ast.Ident)] = true
							}
						}
					} else if id, ok := ast.Unparen(l).(*ast.Ident); ok && id.Name == "_" {
						if w := varOf(s.Rhs[i]); w != nil {
							handled[ast.Unparen(s.Rhs[i]).(*ast.Ident)] = true
						}
					}
				}
			}
		case *ast.ValueSpec:
			if len(s.Values) == 0 {
				for _, id := range s.Names {
					if varOf(id) != nil {
						handled[id] = true
					}
				}
			} else if len(s.Values) == len(s.Names) {
				for i, id := range s.Names {
					if c := varOf(id); c != nil && rhsOK(s.Values[i], c) {
						handled[id] = true
						if w := varOf(s.Values[i]); w != nil {
							handled[ast.Unparen(s.Values[i]).(*ast.Ident)] = true
						}
					}
				}
			}
		}
		return true
	}, nil)
	ast.Inspect(fd.Body, func(x ast.Node) bool {
		if id, ok := x.(*ast.Ident); ok {
			if c := varOf(id); c != nil && !handled[id] {
				c.ok = false
			}
		}
		return true
	})
	// a variable copied from/to a variable that is not split cannot be split
	for again := true; again; {
		again = false
		for _, c := range cands {
			if !c.ok {
				continue
			}
			for _, w := range c.copies {
				if !cands[w].ok {
					c.ok = false
					again = true
				}
			}
		}
	}
	var split []*sroaVar
	for _, c := range cands {
		if c.ok {
			split = append(split, c)
		}
	}
	if len(split) == 0 {
		return false
	}
	sort.Slice(split, func(i, j int) bool { return split[i].obj.Pos() < split[j].obj.Pos() })
	// field type expressions; bail out for the whole function if one cannot be written
	local := n.localNames(fd)
	for _, c := range split {
		for i := 0; i < c.st.NumFields(); i++ {
			if n.typeExpr(c.st.Field(i).Type(), file) == nil {
				return false
			}
			name := c.obj.Name() + "_" + c.st.Field(i).Name()
			for local[name] {
				name += "_"
			}
			local[name] = true
			c.names = append(c.names, name)
		}
	}
	scalarNames := map[string]bool{}
	for _, c := range split {
		for _, nm := range c.names {
			scalarNames[nm] = true
		}
	}
	fieldIndex := func(c *sroaVar, name string) int {
		for i := 0; i < c.st.NumFields(); i++ {
			if c.st.Field(i).Name() == name {
				return i
			}
		}
		return -1
	}
	scalars := func(c *sroaVar) []ast.Expr {
		out := make([]ast.Expr, len(c.names))
		for i, nm := range c.names {
			out[i] = &ast.Ident{Name: nm}
		}
		return out
	}
	zero := func(t types.Type) ast.Expr {
		return &ast.StarExpr{X: &ast.CallExpr{Fun: ast.NewIdent("new"), Args: []ast.Expr{n.typeExpr(t, file)}}}
	}
	// the right-hand side of a whole assignment, field by field
	rhsFields := func(e ast.Expr, c *sroaVar) []ast.Expr {
		if w := varOf(e); w != nil {
			return scalars(w)
		}
		cl := ast.Unparen(e).(*ast.CompositeLit)
		out := make([]ast.Expr, c.st.NumFields())
		keyed := false
		for _, el := range cl.Elts {
			if kv, ok := el.(*ast.KeyValueExpr); ok {
				keyed = true
				if k, ok := kv.Key.(*ast.Ident); ok {
					if i := fieldIndex(c, k.Name); i >= 0 {
						out[i] = kv.Value
					}
				}
			}
		}
		if !keyed {
			for i, el := range cl.Elts {
				out[i] = el
			}
		}
		for i := range out {
			if out[i] == nil {
				out[i] = zero(c.st.Field(i).Type())
			}
		}
		return out
	}
	if local["new"] {
		return false
	}
	useAll := func(c *sroaVar) ast.Stmt {
		lhs := make([]ast.Expr, len(c.names))
		for i := range lhs {
			lhs[i] = ast.NewIdent("_")
		}
		return &ast.AssignStmt{Lhs: lhs, Tok: token.ASSIGN, Rhs: scalars(c)}
	}
	// rewrite
	astutil.Apply(fd.Body, nil, func(cur *astutil.Cursor) bool {
		switch s := cur.Node().(type) {
		case *ast.SelectorExpr:
			x := ast.Unparen(s.X)
			if u, ok := x.(*ast.UnaryExpr); ok && u.Op == token.AND {
				x = ast.Unparen(u.X)
			}
			if c := varOf(x); c != nil && c.ok {
				if i := fieldIndex(c, s.Sel.Name); i >= 0 {
					cur.Replace(&ast.Ident{NamePos: s.Sel.NamePos, Name: c.names[i]})
				}
			}
		case *ast.AssignStmt:
			if s.Tok != token.ASSIGN && s.Tok != token.DEFINE || len(s.Lhs) != len(s.Rhs) {
				return true
			}
			var lhs, rhs []ast.Expr
			touched := false
			for i, l := range s.Lhs {
				if c := varOf(l); c != nil && c.ok {
					lhs = append(lhs, scalars(c)...)
					rhs = append(rhs, rhsFields(s.Rhs[i], c)...)
					touched = true
					continue
				}
				if id, ok := ast.Unparen(l).(*ast.Ident); ok && id.Name == "_" {
					if w := varOf(s.Rhs[i]); w != nil && w.ok {
						for _, e := range scalars(w) {
							lhs = append(lhs, ast.NewIdent("_"))
							rhs = append(rhs, e)
						}
						touched = true
						continue
					}
				}
				lhs = append(lhs, l)
				rhs = append(rhs, s.Rhs[i])
			}
			if touched {
				s.Lhs, s.Rhs = lhs, rhs
				if s.Tok == token.DEFINE && cur.Index() >= 0 {
					// scalars declared here may stay unused where the struct was only written
					for _, l := range s.Lhs {
						if id, ok := l.(*ast.Ident); ok && id.Name != "_" && scalarNames[id.Name] {
							cur.InsertAfter(&ast.AssignStmt{Lhs: []ast.Expr{ast.NewIdent("_")}, Tok: token.ASSIGN, Rhs: []ast.Expr{ast.NewIdent(id.Name)}})
						}
					}
				}
			}
		case *ast.DeclStmt:
			gd, ok := s.Decl.(*ast.GenDecl)
			if !ok || gd.Tok != token.VAR || cur.Index() < 0 {
				return true
			}
			var keep []ast.Spec
			var after []ast.Stmt
			for _, sp := range gd.Specs {
				vs := sp.(*ast.ValueSpec)
				any := false
				for _, id := range vs.Names {
					if c := varOf(id); c != nil && c.ok {
						any = true
					}
				}
				if !any {
					keep = append(keep, sp)
					continue
				}
				for i, id := range vs.Names {
					c := varOf(id)
					if c == nil || !c.ok {
						// mixed specs are not produced by gofmt'ed code with struct candidates; keep as is
						ns := &ast.ValueSpec{Names: []*ast.Ident{id}, Type: vs.Type}
						if len(vs.Values) == len(vs.Names) {
							ns.Values = []ast.Expr{vs.Values[i]}
						}
						keep = append(keep, ns)
						continue
					}
					for k, nm := range c.names {
						after = append(after, &ast.DeclStmt{Decl: &ast.GenDecl{Tok: token.VAR, Specs: []ast.Spec{&ast.ValueSpec{Names: []*ast.Ident{ast.NewIdent(nm)}, Type: n.typeExpr(c.st.Field(k).Type(), file)}}}})
					}
					after = append(after, useAll(c))
					if len(vs.Values) == len(vs.Names) {
						after = append(after, &ast.AssignStmt{Lhs: scalars(c), Tok: token.ASSIGN, Rhs: rhsFields(vs.Values[i], c)})
					}
				}
			}
			if len(after) == 0 {
				return true
			}
			for i := len(after) - 1; i >= 0; i-- {
				cur.InsertAfter(after[i])
			}
			if len(keep) == 0 {
				cur.Delete()
			} else {
				gd.Specs = keep
			}
		}
		return true
	})
	for _, c := range split {
		n.rep.Split = append(n.rep.Split, fmt.Sprintf("%s.%s", Key(fd), c.obj.Name()))
	}
	return true
}

// typeExpr writes a type as syntax valid in file, or nil when it cannot (unexported foreign
// names, packages the file does not import, anonymous structs, function types).
func (n *norm) typeExpr(t types.Type, file *ast.File) ast.Expr {
	switch x := t.(type) {
	case *types.Basic:
		if x.Kind() == types.UnsafePointer || x.Info()&types.IsUntyped != 0 {
			return nil
		}
		return ast.NewIdent(x.Name())
	case *types.Named:
		if x.TypeArgs() != nil && x.TypeArgs().Len() > 0 {
			return nil
		}
		o := x.Obj()
		if o.Pkg() == nil { // error
			return ast.NewIdent(o.Name())
		}
		if o.Pkg() == n.pkg {
			if o.Parent() != n.pkg.Scope() {
				return nil // a type declared inside a function
			}
			return ast.NewIdent(o.Name())
		}
		for _, spec := range file.Imports {
			var po types.Object
			if spec.Name != nil {
				po = n.info.Defs[spec.Name]
			} else {
				po = n.info.Implicits[spec]
			}
			if pn, ok := po.(*types.PkgName); ok && pn.Imported() == o.Pkg() && pn.Name() != "_" && pn.Name() != "." && o.Exported() {
				return &ast.SelectorExpr{X: ast.NewIdent(pn.Name()), Sel: ast.NewIdent(o.Name())}
			}
		}
		return nil
	case *types.Pointer:
		if e := n.typeExpr(x.Elem(), file); e != nil {
			return &ast.StarExpr{X: e}
		}
	case *types.Slice:
		if e := n.typeExpr(x.Elem(), file); e != nil {
			return &ast.ArrayType{Elt: e}
		}
	case *types.Array:
		if e := n.typeExpr(x.Elem(), file); e != nil {
			return &ast.ArrayType{Len: &ast.BasicLit{Kind: token.INT, Value: fmt.Sprint(x.Len())}, Elt: e}
		}
	case *types.Map:
		k, v := n.typeExpr(x.Key(), file), n.typeExpr(x.Elem(), file)
		if k != nil && v != nil {
			return &ast.MapType{Key: k, Value: v}
		}
	case *types.Interface:
		if x.NumMethods() == 0 && x.NumEmbeddeds() == 0 {
			return &ast.InterfaceType{Methods: &ast.FieldList{}}
		}
	}
	return nil
}
