package normal

import (
	"fmt"
	"go/ast"
	"go/token"
	"go/types"
	"os"
	"sort"

	"golang.org/x/tools/go/ast/astutil"
)

// Scalar replacement of local struct variables.
//
// A refactoring that groups a few locals into a small struct ("tracker", "verdict", "bounds")
// changes the SSA form a great deal although nothing changes for the program: go/ssa keeps a
// struct variable in memory, so every field becomes a load or store through a FieldAddr, and
// no rule that follows a value sees through it. After the helpers (including the new type's
// methods) are expanded, such a variable is typically used only field by field. The pass below
// splits a local variable v of struct type into one variable per field when EVERY use of v in
// its function is one of
//
//	v.f   (&v).f              a direct field (read, written, or address-free operand)
//	v = T{...}  v := T{...}   a composite literal of its own type (keyed or positional)
//	v = w       v := w        a whole copy from/to another variable that is split too
//	var v T     var v T = …   its declaration (with the same right-hand sides)
//	_ = v
//
// Anything else (address taken for another purpose, passed, returned, compared, ranged over,
// captured by reflection...) leaves the variable alone. The rewrite keeps evaluation order:
// a composite literal evaluates its operands left to right and then assigns, and so does the
// tuple assignment that replaces it; omitted fields are assigned the zero value `*new(T)`.
func (n *norm) sroa() bool {
	changed := false
	for _, f := range n.files {
		for _, d := range f.Decls {
			fd, ok := d.(*ast.FuncDecl)
			if !ok || fd.Body == nil {
				continue
			}
			if n.sroaFunc(f, fd) {
				changed = true
			}
		}
	}
	return changed
}

type sroaVar struct {
	obj    *types.Var
	st     *types.Struct
	ok     bool
	copies []*types.Var // variables it is copied from / to
	names  []string     // scalar names per field
}

func (n *norm) sroaFunc(file *ast.File, fd *ast.FuncDecl) bool {
	// candidates: variables declared in the body with a struct type
	cands := map[*types.Var]*sroaVar{}
	ast.Inspect(fd.Body, func(x ast.Node) bool {
		id, ok := x.(*ast.Ident)
		if !ok {
			return true
		}
		v, ok := n.info.Defs[id].(*types.Var)
		if !ok || v.IsField() || id.Name == "_" {
			return true
		}
		st, ok := v.Type().Underlying().(*types.Struct)
		if !ok || st.NumFields() == 0 || st.NumFields() > 8 {
			return true
		}
		for i := 0; i < st.NumFields(); i++ {
			if st.Field(i).Embedded() || st.Field(i).Name() == "_" {
				return true
			}
		}
		cands[v] = &sroaVar{obj: v, st: st, ok: true}
		return true
	})
	if len(cands) == 0 {
		return false
	}
	// parameters, results and type-switch variables are never candidates (not in Defs of the body
	// as plain declarations we can rewrite): keep only those declared by :=, var
	declared := map[*types.Var]bool{}
	ast.Inspect(fd.Body, func(x ast.Node) bool {
		switch s := x.(type) {
		case *ast.AssignStmt:
			if s.Tok == token.DEFINE {
				for _, l := range s.Lhs {
					if id, ok := l.(*ast.Ident); ok {
						if v, ok := n.info.Defs[id].(*types.Var); ok {
							declared[v] = true
						}
					}
				}
			}
		case *ast.ValueSpec:
			for _, id := range s.Names {
				if v, ok := n.info.Defs[id].(*types.Var); ok {
					declared[v] = true
				}
			}
		case *ast.RangeStmt:
			for _, kv := range []ast.Expr{s.Key, s.Value} {
				if id, ok := kv.(*ast.Ident); ok {
					if v, ok := n.info.Defs[id].(*types.Var); ok {
						delete(declared, v)
						if c := cands[v]; c != nil {
							c.ok = false
						}
					}
				}
			}
		}
		return true
	})
	for v, c := range cands {
		if !declared[v] {
			c.ok = false
		}
	}
	varOf := func(e ast.Expr) *sroaVar {
		id, ok := ast.Unparen(e).(*ast.Ident)
		if !ok {
			return nil
		}
		o := n.info.Uses[id]
		if o == nil {
			o = n.info.Defs[id]
		}
		v, ok := o.(*types.Var)
		if !ok {
			return nil
		}
		return cands[v]
	}
	isOwnLit := func(e ast.Expr, c *sroaVar) bool {
		cl, ok := ast.Unparen(e).(*ast.CompositeLit)
		if !ok {
			return false
		}
		tv, ok := n.info.Types[cl]
		if !ok || !types.Identical(tv.Type, c.obj.Type()) {
			return false
		}
		keyed := false
		for _, el := range cl.Elts {
			if _, isKV := el.(*ast.KeyValueExpr); isKV {
				keyed = true
			}
		}
		if !keyed && len(cl.Elts) != 0 && len(cl.Elts) != c.st.NumFields() {
			return false
		}
		return true
	}
	rhsOK := func(e ast.Expr, c *sroaVar) bool {
		if isOwnLit(e, c) {
			return true
		}
		if w := varOf(e); w != nil && w != c && types.Identical(w.obj.Type(), c.obj.Type()) {
			c.copies = append(c.copies, w.obj)
			w.copies = append(w.copies, c.obj)
			return true
		}
		return false
	}
	// classify every use
	handled := map[*ast.Ident]bool{}
	astutil.Apply(fd.Body, func(cur *astutil.Cursor) bool {
		switch s := cur.Node().(type) {
		case *ast.SelectorExpr:
			x := ast.Unparen(s.X)
			if u, ok := x.(*ast.UnaryExpr); ok && u.Op == token.AND {
				x = ast.Unparen(u.X)
			}
			if id, ok := x.(*ast.Ident); ok {
				if c := varOf(id); c != nil {
					if sel := n.info.Selections[s]; sel != nil && sel.Kind() == types.FieldVal && len(sel.Index()) == 1 {
						// `&v.f` takes the address of the field: the scalar would have to be addressable
						// in the same way, which it is (a variable); allowed
						handled[id] = true
					}
				}
			}
		case *ast.AssignStmt:
			if s.Tok != token.ASSIGN && s.Tok != token.DEFINE {
				return true
			}
			if len(s.Lhs) == len(s.Rhs) {
				for i, l := range s.Lhs {
					if c := varOf(l); c != nil {
						if rhsOK(s.Rhs[i], c) {
							handled[ast.Unparen(l).(*ast.Ident)] = true
							if w := varOf(s.Rhs[i]); w != nil {
								handled[ast.Unparen(s.Rhs[i]).(*ast.Ident)] = true
							}
						}
					} else if id, ok := ast.Unparen(l).(*ast.Ident); ok && id.Name == "_" {
						if w := varOf(s.Rhs[i]); w != nil {
							handled[ast.Unparen(s.Rhs[i]).(*ast.Ident)] = true
						}
					}
				}
			}
		case *ast.ValueSpec:
			if len(s.Values) == 0 {
				for _, id := range s.Names {
					if varOf(id) != nil {
						handled[id] = true
					}
				}
			} else if len(s.Values) == len(s.Names) {
				for i, id := range s.Names {
					if c := varOf(id); c != nil && rhsOK(s.Values[i], c) {
						handled[id] = true
						if w := varOf(s.Values[i]); w != nil {
							handled[ast.Unparen(s.Values[i]).(*ast.Ident)] = true
						}
					}
				}
			}
		}
		return true
	}, nil)
	ast.Inspect(fd.Body, func(x ast.Node) bool {
		if id, ok := x.(*ast.Ident); ok {
			if c := varOf(id); c != nil && !handled[id] {
				c.ok = false
			}
		}
		return true
	})
	// a field type that cannot be written down keeps its variable whole
	for _, c := range cands {
		if !c.ok {
			continue
		}
		for i := 0; i < c.st.NumFields(); i++ {
			if n.typeExpr(c.st.Field(i).Type(), file) == nil {
				c.ok = false
			}
		}
	}
	// a variable copied from/to a variable that is not split cannot be split
	for again := true; again; {
		again = false
		for _, c := range cands {
			if !c.ok {
				continue
			}
			for _, w := range c.copies {
				if !cands[w].ok {
					c.ok = false
					again = true
				}
			}
		}
	}
	var split []*sroaVar
	for _, c := range cands {
		if os.Getenv("VERIF_DEBUG_SROA") != "" {
			fmt.Fprintf(os.Stderr, "sroa %s.%s ok=%v copies=%d\n", Key(fd), c.obj.Name(), c.ok, len(c.copies))
		}
		if c.ok {
			split = append(split, c)
		}
	}
	if len(split) == 0 {
		return false
	}
	sort.Slice(split, func(i, j int) bool { return split[i].obj.Pos() < split[j].obj.Pos() })
	// field type expressions; bail out for the whole function if one cannot be written
	local := n.localNames(fd)
	for _, c := range split {
		for i := 0; i < c.st.NumFields(); i++ {
			if n.typeExpr(c.st.Field(i).Type(), file) == nil {
				return false
			}
			name := c.obj.Name() + "_" + c.st.Field(i).Name()
			for local[name] {
				name += "_"
			}
			local[name] = true
			c.names = append(c.names, name)
		}
	}
	scalarNames := map[string]bool{}
	for _, c := range split {
		for _, nm := range c.names {
			scalarNames[nm] = true
		}
	}
	fieldIndex := func(c *sroaVar, name string) int {
		for i := 0; i < c.st.NumFields(); i++ {
			if c.st.Field(i).Name() == name {
				return i
			}
		}
		return -1
	}
	scalars := func(c *sroaVar) []ast.Expr {
		out := make([]ast.Expr, len(c.names))
		for i, nm := range c.names {
			out[i] = &ast.Ident{Name: nm}
		}
		return out
	}
	zero := func(t types.Type) ast.Expr {
		return &ast.StarExpr{X: &ast.CallExpr{Fun: ast.NewIdent("new"), Args: []ast.Expr{n.typeExpr(t, file)}}}
	}
	// the right-hand side of a whole assignment, field by field
	rhsFields := func(e ast.Expr, c *sroaVar) []ast.Expr {
		if w := varOf(e); w != nil {
			return scalars(w)
		}
		cl := ast.Unparen(e).(*ast.CompositeLit)
		out := make([]ast.Expr, c.st.NumFields())
		keyed := false
		for _, el := range cl.Elts {
			if kv, ok := el.(*ast.KeyValueExpr); ok {
				keyed = true
				if k, ok := kv.Key.(*ast.Ident); ok {
					if i := fieldIndex(c, k.Name); i >= 0 {
						out[i] = kv.Value
					}
				}
			}
		}
		if !keyed {
			for i, el := range cl.Elts {
				out[i] = el
			}
		}
		for i := range out {
			if out[i] == nil {
				out[i] = zero(c.st.Field(i).Type())
			}
		}
		return out
	}
	if local["new"] {
		return false
	}
	useAll := func(c *sroaVar) ast.Stmt {
		lhs := make([]ast.Expr, len(c.names))
		for i := range lhs {
			lhs[i] = ast.NewIdent("_")
		}
		return &ast.AssignStmt{Lhs: lhs, Tok: token.ASSIGN, Rhs: scalars(c)}
	}
	// rewrite
	astutil.Apply(fd.Body, nil, func(cur *astutil.Cursor) bool {
		switch s := cur.Node().(type) {
		case *ast.SelectorExpr:
			x := ast.Unparen(s.X)
			if u, ok := x.(*ast.UnaryExpr); ok && u.Op == token.AND {
				x = ast.Unparen(u.X)
			}
			if c := varOf(x); c != nil && c.ok {
				if i := fieldIndex(c, s.Sel.Name); i >= 0 {
					cur.Replace(&ast.Ident{NamePos: s.Sel.NamePos, Name: c.names[i]})
				}
			}
		case *ast.AssignStmt:
			if s.Tok != token.ASSIGN && s.Tok != token.DEFINE || len(s.Lhs) != len(s.Rhs) {
				return true
			}
			var lhs, rhs []ast.Expr
			touched := false
			for i, l := range s.Lhs {
				if c := varOf(l); c != nil && c.ok {
					lhs = append(lhs, scalars(c)...)
					rhs = append(rhs, rhsFields(s.Rhs[i], c)...)
					touched = true
					continue
				}
				if id, ok := ast.Unparen(l).(*ast.Ident); ok && id.Name == "_" {
					if w := varOf(s.Rhs[i]); w != nil && w.ok {
						for _, e := range scalars(w) {
							lhs = append(lhs, ast.NewIdent("_"))
							rhs = append(rhs, e)
						}
						touched = true
						continue
					}
				}
				lhs = append(lhs, l)
				rhs = append(rhs, s.Rhs[i])
			}
			if touched {
				s.Lhs, s.Rhs = lhs, rhs
				if s.Tok == token.DEFINE && cur.Index() >= 0 {
					// scalars declared here may stay unused where the struct was only written
					for _, l := range s.Lhs {
						if id, ok := l.(*ast.Ident); ok && id.Name != "_" && scalarNames[id.Name] {
							cur.InsertAfter(&ast.AssignStmt{Lhs: []ast.Expr{ast.NewIdent("_")}, Tok: token.ASSIGN, Rhs: []ast.Expr{ast.NewIdent(id.Name)}})
						}
					}
				}
			}
		case *ast.DeclStmt:
			gd, ok := s.Decl.(*ast.GenDecl)
			if !ok || gd.Tok != token.VAR || cur.Index() < 0 {
				return true
			}
			var keep []ast.Spec
			var after []ast.Stmt
			for _, sp := range gd.Specs {
				vs := sp.(*ast.ValueSpec)
				any := false
				for _, id := range vs.Names {
					if c := varOf(id); c != nil && c.ok {
						any = true
					}
				}
				if !any {
					keep = append(keep, sp)
					continue
				}
				for i, id := range vs.Names {
					c := varOf(id)
					if c == nil || !c.ok {
						// mixed specs are not produced by gofmt'ed code with struct candidates; keep as is
						ns := &ast.ValueSpec{Names: []*ast.Ident{id}, Type: vs.Type}
						if len(vs.Values) == len(vs.Names) {
							ns.Values = []ast.Expr{vs.Values[i]}
						}
						keep = append(keep, ns)
						continue
					}
					for k, nm := range c.names {
						after = append(after, &ast.DeclStmt{Decl: &ast.GenDecl{Tok: token.VAR, Specs: []ast.Spec{&ast.ValueSpec{Names: []*ast.Ident{ast.NewIdent(nm)}, Type: n.typeExpr(c.st.Field(k).Type(), file)}}}})
					}
					after = append(after, useAll(c))
					if len(vs.Values) == len(vs.Names) {
						after = append(after, &ast.AssignStmt{Lhs: scalars(c), Tok: token.ASSIGN, Rhs: rhsFields(vs.Values[i], c)})
					}
				}
			}
			if len(after) == 0 {
				return true
			}
			for i := len(after) - 1; i >= 0; i-- {
				cur.InsertAfter(after[i])
			}
			if len(keep) == 0 {
				cur.Delete()
			} else {
				gd.Specs = keep
			}
		}
		return true
	})
	for _, c := range split {
		n.rep.Split = append(n.rep.Split, fmt.Sprintf("%s.%s", Key(fd), c.obj.Name()))
	}
	return true
}

// typeExpr writes a type as syntax valid in file, or nil when it cannot (unexported foreign
// names, packages the file does not import, anonymous structs, function types).
func (n *norm) typeExpr(t types.Type, file *ast.File) ast.Expr {
	switch x := t.(type) {
	case *types.Basic:
		if x.Kind() == types.UnsafePointer || x.Info()&types.IsUntyped != 0 {
			return nil
		}
		return ast.NewIdent(x.Name())
	case *types.Named:
		if x.TypeArgs() != nil && x.TypeArgs().Len() > 0 {
			return nil
		}
		o := x.Obj()
		if o.Pkg() == nil { // error
			return ast.NewIdent(o.Name())
		}
		if o.Pkg() == n.pkg {
			if o.Parent() != n.pkg.Scope() {
				return nil // a type declared inside a function
			}
			return ast.NewIdent(o.Name())
		}
		for _, spec := range file.Imports {
			var po types.Object
			if spec.Name != nil {
				po = n.info.Defs[spec.Name]
			} else {
				po = n.info.Implicits[spec]
			}
			if pn, ok := po.(*types.PkgName); ok && pn.Imported() == o.Pkg() && pn.Name() != "_" && pn.Name() != "." && o.Exported() {
				return &ast.SelectorExpr{X: ast.NewIdent(pn.Name()), Sel: ast.NewIdent(o.Name())}
			}
		}
		return nil
	case *types.Pointer:
		if e := n.typeExpr(x.Elem(), file); e != nil {
			return &ast.StarExpr{X: e}
		}
	case *types.Slice:
		if e := n.typeExpr(x.Elem(), file); e != nil {
			return &ast.ArrayType{Elt: e}
		}
	case *types.Array:
		if e := n.typeExpr(x.Elem(), file); e != nil {
			return &ast.ArrayType{Len: &ast.BasicLit{Kind: token.INT, Value: fmt.Sprint(x.Len())}, Elt: e}
		}
	case *types.Map:
		k, v := n.typeExpr(x.Key(), file), n.typeExpr(x.Elem(), file)
		if k != nil && v != nil {
			return &ast.MapType{Key: k, Value: v}
		}
	case *types.Interface:
		if x.NumMethods() == 0 && x.NumEmbeddeds() == 0 {
			return &ast.InterfaceType{Methods: &ast.FieldList{}}
		}
	case *types.Signature:
		if x.Recv() != nil || x.TypeParams() != nil {
			return nil
		}
		ft := &ast.FuncType{Params: &ast.FieldList{}}
		for i := 0; i < x.Params().Len(); i++ {
			t := x.Params().At(i).Type()
			var e ast.Expr
			if x.Variadic() && i == x.Params().Len()-1 {
				if sl, ok := t.(*types.Slice); ok {
					if el := n.typeExpr(sl.Elem(), file); el != nil {
						e = &ast.Ellipsis{Elt: el}
					}
				}
			} else {
				e = n.typeExpr(t, file)
			}
			if e == nil {
				return nil
			}
			ft.Params.List = append(ft.Params.List, &ast.Field{Type: e})
		}
		if x.Results().Len() > 0 {
			ft.Results = &ast.FieldList{}
			for i := 0; i < x.Results().Len(); i++ {
				e := n.typeExpr(x.Results().At(i).Type(), file)
				if e == nil {
					return nil
				}
				ft.Results.List = append(ft.Results.List, &ast.Field{Type: e})
			}
		}
		return ft
	}
	return nil
}

// Parameter objects. A refactoring that replaces several parameters of a function by one small
// struct ("introduce parameter object") is undone here: an unexported function with a by-value
// struct parameter that its body only uses field by field, and that is only ever called
// directly with a local variable or a composite literal as that argument, gets one parameter
// per field again; the call sites pass the fields. Afterwards the caller's struct variable is
// used field by field only, and the pass above splits it.
func (n *norm) sroaParams() bool {
	type target struct {
		fd    *ast.FuncDecl
		file  *ast.File
		fn    *types.Func
		field *ast.Field // the parameter field (single name)
		index int        // parameter index in the signature
		st    *types.Struct
		T     types.Type
		names []string
	}
	// interface method names of the package: methods with such names are left alone
	ifaceMethods := map[string]bool{}
	for _, name := range n.pkg.Scope().Names() {
		if tn, ok := n.pkg.Scope().Lookup(name).(*types.TypeName); ok {
			if it, ok := tn.Type().Underlying().(*types.Interface); ok {
				for i := 0; i < it.NumMethods(); i++ {
					ifaceMethods[it.Method(i).Name()] = true
				}
			}
		}
	}
	var targets []*target
	for _, f := range n.files {
		for _, d := range f.Decls {
			fd, ok := d.(*ast.FuncDecl)
			if !ok || fd.Body == nil || fd.Type.Params == nil || ast.IsExported(fd.Name.Name) || fd.Type.TypeParams != nil {
				continue
			}
			fn, ok := n.info.Defs[fd.Name].(*types.Func)
			if !ok {
				continue
			}
			if fd.Recv != nil && ifaceMethods[fd.Name.Name] {
				continue
			}
			idx := 0
			for _, pf := range fd.Type.Params.List {
				if len(pf.Names) != 1 {
					idx += len(pf.Names)
					if len(pf.Names) == 0 {
						idx++
					}
					continue
				}
				pv, ok := n.info.Defs[pf.Names[0]].(*types.Var)
				if !ok || pf.Names[0].Name == "_" {
					idx++
					continue
				}
				named, isNamed := pv.Type().(*types.Named)
				st, isSt := pv.Type().Underlying().(*types.Struct)
				if !isNamed || !isSt || named.Obj().Pkg() != n.pkg || st.NumFields() == 0 || st.NumFields() > 8 {
					idx++
					continue
				}
				good := true
				for i := 0; i < st.NumFields(); i++ {
					if st.Field(i).Embedded() || st.Field(i).Name() == "_" || n.typeExpr(st.Field(i).Type(), f) == nil {
						good = false
					}
				}
				// body: only p.f
				inSel := map[*ast.Ident]bool{}
				ast.Inspect(fd.Body, func(x ast.Node) bool {
					if s, ok := x.(*ast.SelectorExpr); ok {
						if id, ok := ast.Unparen(s.X).(*ast.Ident); ok && n.info.Uses[id] == types.Object(pv) {
							if sel := n.info.Selections[s]; sel != nil && sel.Kind() == types.FieldVal && len(sel.Index()) == 1 {
								inSel[id] = true
							}
						}
					}
					return true
				})
				ast.Inspect(fd.Body, func(x ast.Node) bool {
					if id, ok := x.(*ast.Ident); ok && n.info.Uses[id] == types.Object(pv) && !inSel[id] {
						good = false
					}
					return true
				})
				if good {
					t := &target{fd: fd, file: f, fn: fn, field: pf, index: idx, st: st, T: pv.Type()}
					local := n.localNames(fd)
					for i := 0; i < st.NumFields(); i++ {
						nm := pf.Names[0].Name + "_" + st.Field(i).Name()
						for local[nm] {
							nm += "_"
						}
						local[nm] = true
						t.names = append(t.names, nm)
					}
					targets = append(targets, t)
				}
				idx++
			}
		}
	}
	if len(targets) == 0 {
		return false
	}
	// one parameter per function at a time (indices shift otherwise)
	seenFn := map[*types.Func]bool{}
	var uniq []*target
	for _, t := range targets {
		if !seenFn[t.fn] {
			seenFn[t.fn] = true
			uniq = append(uniq, t)
		}
	}
	targets = uniq
	byFn := map[*types.Func]*target{}
	for _, t := range targets {
		byFn[t.fn] = t
	}
	// call sites; any other reference disqualifies
	type site struct {
		call *ast.CallExpr
		t    *target
		file *ast.File
	}
	var sites []*site
	funPos := map[*ast.Ident]bool{}
	bad := map[*target]bool{}
	for _, f := range n.files {
		file := f
		ast.Inspect(f, func(x ast.Node) bool {
			call, ok := x.(*ast.CallExpr)
			if !ok {
				return true
			}
			callee := n.calleeOf(call)
			t := byFn[callee]
			if t == nil {
				return true
			}
			switch fun := ast.Unparen(call.Fun).(type) {
			case *ast.Ident:
				funPos[fun] = true
			case *ast.SelectorExpr:
				funPos[fun.Sel] = true
			}
			if call.Ellipsis.IsValid() || t.index >= len(call.Args) || len(call.Args) != t.fn.Type().(*types.Signature).Params().Len() {
				bad[t] = true
				return true
			}
			arg := ast.Unparen(call.Args[t.index])
			switch a := arg.(type) {
			case *ast.Ident:
				if v, isVar := n.info.Uses[a].(*types.Var); !isVar || v.IsField() || v.Parent() == n.pkg.Scope() || !types.Identical(v.Type(), t.T) {
					bad[t] = true
				}
			case *ast.CompositeLit:
				tv, ok := n.info.Types[a]
				if !ok || !types.Identical(tv.Type, t.T) {
					bad[t] = true
					break
				}
				// operands must appear in field order (evaluation order is kept) or be trivial
				last := -1
				for i, el := range a.Elts {
					fi := i
					val := el
					if kv, isKV := el.(*ast.KeyValueExpr); isKV {
						fi = -1
						if k, ok := kv.Key.(*ast.Ident); ok {
							for j := 0; j < t.st.NumFields(); j++ {
								if t.st.Field(j).Name() == k.Name {
									fi = j
								}
							}
						}
						val = kv.Value
					}
					if fi < 0 || (fi < last && !n.trivial(val)) {
						bad[t] = true
					}
					if fi > last {
						last = fi
					}
				}
			default:
				bad[t] = true
			}
			sites = append(sites, &site{call, t, file})
			return true
		})
	}
	for id, o := range n.info.Uses {
		if fn, ok := o.(*types.Func); ok {
			if t := byFn[fn]; t != nil && !funPos[id] {
				bad[t] = true
			}
		}
	}
	changed := false
	for _, s := range sites {
		t := s.t
		if bad[t] {
			continue
		}
		arg := ast.Unparen(s.call.Args[t.index])
		var repl []ast.Expr
		switch a := arg.(type) {
		case *ast.Ident:
			for i := 0; i < t.st.NumFields(); i++ {
				repl = append(repl, &ast.SelectorExpr{X: &ast.Ident{NamePos: a.NamePos, Name: a.Name}, Sel: ast.NewIdent(t.st.Field(i).Name())})
			}
		case *ast.CompositeLit:
			repl = make([]ast.Expr, t.st.NumFields())
			for i, el := range a.Elts {
				if kv, isKV := el.(*ast.KeyValueExpr); isKV {
					for j := 0; j < t.st.NumFields(); j++ {
						if t.st.Field(j).Name() == kv.Key.(*ast.Ident).Name {
							repl[j] = kv.Value
						}
					}
				} else {
					repl[i] = el
				}
			}
			for j := range repl {
				if repl[j] == nil {
					te := n.typeExpr(t.st.Field(j).Type(), s.file)
					if te == nil {
						bad[t] = true
						break
					}
					repl[j] = &ast.StarExpr{X: &ast.CallExpr{Fun: ast.NewIdent("new"), Args: []ast.Expr{te}}}
				}
			}
		}
		if bad[t] {
			continue
		}
		var args []ast.Expr
		args = append(args, s.call.Args[:t.index]...)
		args = append(args, repl...)
		args = append(args, s.call.Args[t.index+1:]...)
		s.call.Args = args
		changed = true
	}
	for _, t := range targets {
		if bad[t] {
			continue
		}
		// signature
		var fields []*ast.Field
		for _, pf := range t.fd.Type.Params.List {
			if pf != t.field {
				fields = append(fields, pf)
				continue
			}
			for i, nm := range t.names {
				fields = append(fields, &ast.Field{Names: []*ast.Ident{ast.NewIdent(nm)}, Type: n.typeExpr(t.st.Field(i).Type(), t.file)})
			}
		}
		t.fd.Type.Params.List = fields
		// body
		pname := t.field.Names[0].Name
		pobj := n.info.Defs[t.field.Names[0]]
		astutil.Apply(t.fd.Body, nil, func(cur *astutil.Cursor) bool {
			if s, ok := cur.Node().(*ast.SelectorExpr); ok {
				if id, ok := ast.Unparen(s.X).(*ast.Ident); ok && id.Name == pname && n.info.Uses[id] == pobj {
					for i := 0; i < t.st.NumFields(); i++ {
						if t.st.Field(i).Name() == s.Sel.Name {
							cur.Replace(&ast.Ident{NamePos: s.Sel.NamePos, Name: t.names[i]})
						}
					}
				}
			}
			return true
		})
		n.rep.Split = append(n.rep.Split, fmt.Sprintf("%s(parameter %s)", Key(t.fd), pname))
		changed = true
	}
	return changed
}

// sroaIfaceParams: the same for a method of an interface declared in the package: when the
// interface method has a by-value struct parameter of a package type, every method of that name
// and signature in the package uses the parameter field by field only, and every call of the
// method (through the interface or on a concrete receiver) passes a local variable or a
// composite literal, the interface method, all implementations and all call sites get one
// parameter per field.
func (n *norm) sroaIfaceParams() bool {
	changed := false
	for _, f := range n.files {
		for _, d := range f.Decls {
			gd, ok := d.(*ast.GenDecl)
			if !ok || gd.Tok != token.TYPE {
				continue
			}
			for _, sp := range gd.Specs {
				ts := sp.(*ast.TypeSpec)
				it, ok := ts.Type.(*ast.InterfaceType)
				if !ok || it.Methods == nil || ts.TypeParams != nil {
					continue
				}
				for _, mf := range it.Methods.List {
					ft, ok := mf.Type.(*ast.FuncType)
					if !ok || len(mf.Names) != 1 || ft.Params == nil {
						continue
					}
					if n.sroaIfaceMethod(f, mf, ft) {
						changed = true
					}
				}
			}
		}
	}
	return changed
}

func (n *norm) sroaIfaceMethod(ifaceFile *ast.File, mf *ast.Field, ft *ast.FuncType) bool {
	mname := mf.Names[0].Name
	mobj, ok := n.info.Defs[mf.Names[0]].(*types.Func)
	if !ok {
		return false
	}
	msig := mobj.Type().(*types.Signature)
	// the struct parameter (first one that qualifies)
	pidx := -1
	var st *types.Struct
	var T types.Type
	for i := 0; i < msig.Params().Len(); i++ {
		pt := msig.Params().At(i).Type()
		named, isNamed := pt.(*types.Named)
		s, isSt := pt.Underlying().(*types.Struct)
		if !isNamed || !isSt || named.Obj().Pkg() != n.pkg || s.NumFields() == 0 || s.NumFields() > 8 {
			continue
		}
		good := true
		for j := 0; j < s.NumFields(); j++ {
			if s.Field(j).Embedded() || s.Field(j).Name() == "_" {
				good = false
			}
		}
		if good {
			pidx, st, T = i, s, pt
			break
		}
	}
	if pidx < 0 || msig.Variadic() {
		return false
	}
	// position of the parameter in the interface method's field list (one name per field expected)
	flat := 0
	var ifaceField *ast.Field
	for _, pf := range ft.Params.List {
		k := len(pf.Names)
		if k == 0 {
			k = 1
		}
		if flat == pidx && k == 1 {
			ifaceField = pf
		}
		flat += k
	}
	if ifaceField == nil {
		return false
	}
	// implementations: every method of that name; all must have the identical signature
	type impl struct {
		fd    *ast.FuncDecl
		file  *ast.File
		field *ast.Field
		pobj  types.Object
		names []string
	}
	var impls []*impl
	for _, f := range n.files {
		for _, d := range f.Decls {
			fd, ok := d.(*ast.FuncDecl)
			if !ok || fd.Recv == nil || fd.Name.Name != mname || fd.Body == nil {
				continue
			}
			fn, ok := n.info.Defs[fd.Name].(*types.Func)
			if !ok {
				return false
			}
			sig := fn.Type().(*types.Signature)
			if !types.Identical(types.NewSignatureType(nil, nil, nil, sig.Params(), sig.Results(), sig.Variadic()), types.NewSignatureType(nil, nil, nil, msig.Params(), msig.Results(), msig.Variadic())) {
				return false // a method of the same name with another signature: leave everything alone
			}
			var field *ast.Field
			flat := 0
			for _, pf := range fd.Type.Params.List {
				k := len(pf.Names)
				if k == 0 {
					k = 1
				}
				if flat == pidx && k == 1 && len(pf.Names) == 1 {
					field = pf
				}
				flat += k
			}
			if field == nil {
				return false
			}
			pobj := n.info.Defs[field.Names[0]]
			im := &impl{fd: fd, file: f, field: field, pobj: pobj}
			if field.Names[0].Name != "_" {
				inSel := map[*ast.Ident]bool{}
				ast.Inspect(fd.Body, func(x ast.Node) bool {
					if s, ok := x.(*ast.SelectorExpr); ok {
						if id, ok := ast.Unparen(s.X).(*ast.Ident); ok && n.info.Uses[id] == pobj {
							if sel := n.info.Selections[s]; sel != nil && sel.Kind() == types.FieldVal && len(sel.Index()) == 1 {
								inSel[id] = true
							}
						}
					}
					return true
				})
				good := true
				ast.Inspect(fd.Body, func(x ast.Node) bool {
					if id, ok := x.(*ast.Ident); ok && n.info.Uses[id] == pobj && !inSel[id] {
						good = false
					}
					return true
				})
				if !good {
					return false
				}
			}
			local := n.localNames(fd)
			for j := 0; j < st.NumFields(); j++ {
				if n.typeExpr(st.Field(j).Type(), f) == nil {
					return false
				}
				nm := field.Names[0].Name + "_" + st.Field(j).Name()
				if field.Names[0].Name == "_" {
					nm = "_"
				}
				for nm != "_" && local[nm] {
					nm += "_"
				}
				local[nm] = true
				im.names = append(im.names, nm)
			}
			impls = append(impls, im)
		}
	}
	if len(impls) == 0 {
		return false
	}
	for j := 0; j < st.NumFields(); j++ {
		if n.typeExpr(st.Field(j).Type(), ifaceFile) == nil {
			return false
		}
	}
	// call sites: selector calls of that method name whose method is the interface's or an implementation's
	implObj := map[types.Object]bool{mobj: true}
	for _, im := range impls {
		implObj[n.info.Defs[im.fd.Name]] = true
	}
	type site struct {
		call *ast.CallExpr
		file *ast.File
	}
	var sites []site
	okAll := true
	funPos := map[*ast.Ident]bool{}
	for _, f := range n.files {
		file := f
		ast.Inspect(f, func(x ast.Node) bool {
			call, ok := x.(*ast.CallExpr)
			if !ok {
				return true
			}
			sel, ok := ast.Unparen(call.Fun).(*ast.SelectorExpr)
			if !ok || sel.Sel.Name != mname {
				return true
			}
			s := n.info.Selections[sel]
			if s == nil || !implObj[s.Obj()] {
				return true
			}
			if s.Kind() != types.MethodVal {
				okAll = false
				return true
			}
			funPos[sel.Sel] = true
			if call.Ellipsis.IsValid() || len(call.Args) != msig.Params().Len() {
				okAll = false
				return true
			}
			switch a := ast.Unparen(call.Args[pidx]).(type) {
			case *ast.Ident:
				if v, isVar := n.info.Uses[a].(*types.Var); !isVar || v.IsField() || v.Parent() == n.pkg.Scope() || !types.Identical(v.Type(), T) {
					okAll = false
				}
			case *ast.CompositeLit:
				tv, ok := n.info.Types[a]
				if !ok || !types.Identical(tv.Type, T) {
					okAll = false
					break
				}
				last := -1
				for i, el := range a.Elts {
					fi, val := i, el
					if kv, isKV := el.(*ast.KeyValueExpr); isKV {
						fi = -1
						if k, ok := kv.Key.(*ast.Ident); ok {
							for j := 0; j < st.NumFields(); j++ {
								if st.Field(j).Name() == k.Name {
									fi = j
								}
							}
						}
						val = kv.Value
					}
					if fi < 0 || (fi < last && !n.trivial(val)) {
						okAll = false
					}
					if fi > last {
						last = fi
					}
				}
			default:
				okAll = false
			}
			sites = append(sites, site{call, file})
			return true
		})
	}
	// any other reference to the methods (method values, method expressions) disqualifies
	for id, o := range n.info.Uses {
		if implObj[o] && !funPos[id] {
			okAll = false
		}
	}
	if !okAll {
		return false
	}
	// rewrite the call sites
	for _, s := range sites {
		var repl []ast.Expr
		switch a := ast.Unparen(s.call.Args[pidx]).(type) {
		case *ast.Ident:
			for j := 0; j < st.NumFields(); j++ {
				repl = append(repl, &ast.SelectorExpr{X: &ast.Ident{NamePos: a.NamePos, Name: a.Name}, Sel: ast.NewIdent(st.Field(j).Name())})
			}
		case *ast.CompositeLit:
			repl = make([]ast.Expr, st.NumFields())
			for i, el := range a.Elts {
				if kv, isKV := el.(*ast.KeyValueExpr); isKV {
					for j := 0; j < st.NumFields(); j++ {
						if st.Field(j).Name() == kv.Key.(*ast.Ident).Name {
							repl[j] = kv.Value
						}
					}
				} else {
					repl[i] = el
				}
			}
			for j := range repl {
				if repl[j] == nil {
					te := n.typeExpr(st.Field(j).Type(), s.file)
					if te == nil {
						return false
					}
					repl[j] = &ast.StarExpr{X: &ast.CallExpr{Fun: ast.NewIdent("new"), Args: []ast.Expr{te}}}
				}
			}
		}
		var args []ast.Expr
		args = append(args, s.call.Args[:pidx]...)
		args = append(args, repl...)
		args = append(args, s.call.Args[pidx+1:]...)
		s.call.Args = args
	}
	// the interface method
	{
		var fields []*ast.Field
		for _, pf := range ft.Params.List {
			if pf != ifaceField {
				fields = append(fields, pf)
				continue
			}
			for j := 0; j < st.NumFields(); j++ {
				fld := &ast.Field{Type: n.typeExpr(st.Field(j).Type(), ifaceFile)}
				if len(pf.Names) == 1 {
					fld.Names = []*ast.Ident{ast.NewIdent(pf.Names[0].Name + "_" + st.Field(j).Name())}
				}
				fields = append(fields, fld)
			}
		}
		ft.Params.List = fields
	}
	// the implementations
	for _, im := range impls {
		var fields []*ast.Field
		for _, pf := range im.fd.Type.Params.List {
			if pf != im.field {
				fields = append(fields, pf)
				continue
			}
			for j, nm := range im.names {
				fields = append(fields, &ast.Field{Names: []*ast.Ident{ast.NewIdent(nm)}, Type: n.typeExpr(st.Field(j).Type(), im.file)})
			}
		}
		im.fd.Type.Params.List = fields
		pname := im.field.Names[0].Name
		if pname == "_" {
			continue
		}
		astutil.Apply(im.fd.Body, nil, func(cur *astutil.Cursor) bool {
			if s, ok := cur.Node().(*ast.SelectorExpr); ok {
				if id, ok := ast.Unparen(s.X).(*ast.Ident); ok && id.Name == pname && n.info.Uses[id] == im.pobj {
					for j := 0; j < st.NumFields(); j++ {
						if st.Field(j).Name() == s.Sel.Name {
							cur.Replace(&ast.Ident{NamePos: s.Sel.NamePos, Name: im.names[j]})
						}
					}
				}
			}
			return true
		})
	}
	n.rep.Split = append(n.rep.Split, fmt.Sprintf("interface method %s(parameter #%d)", mname, pidx))
	return true
}
