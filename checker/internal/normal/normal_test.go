package normal

import (
	"bytes"
	"go/ast"
	"go/importer"
	"go/parser"
	"go/printer"
	"go/token"
	"go/types"
	"os"
	"os/exec"
	"path/filepath"
	"testing"
)

// TestDifferential expands every helper of the fixture program and checks that the program still
// type-checks, that the helpers were in fact expanded, and that it prints the same output.
func TestDifferential(t *testing.T) {
	src := filepath.Join("testdata", "fix", "main.go")
	fset := token.NewFileSet()
	f, err := parser.ParseFile(fset, src, nil, parser.ParseComments)
	if err != nil {
		t.Fatal(err)
	}
	files := []*ast.File{f}
	check := func(files []*ast.File) (*types.Package, *types.Info, error) {
		info := &types.Info{
			Types: map[ast.Expr]types.TypeAndValue{}, Defs: map[*ast.Ident]types.Object{}, Uses: map[*ast.Ident]types.Object{},
			Implicits: map[ast.Node]types.Object{}, Selections: map[*ast.SelectorExpr]*types.Selection{}, Scopes: map[ast.Node]*types.Scope{},
			Instances: map[*ast.Ident]types.Instance{},
		}
		conf := &types.Config{Importer: importer.ForCompiler(fset, "source", nil)}
		pkg, err := conf.Check("main", fset, files, info)
		return pkg, info, err
	}
	pkg, info, err := check(files)
	if err != nil {
		t.Fatal(err)
	}
	known := map[string]string{"main": "", "run": "", "chain": "", "emit": "", "base.tag": "", "structs": "", "objects": "", "firstChooser.choose": "", "lastChooser.choose": "", "describePair": "", "copies": "", "surgery": "", "loud.speak": "", "holderT.setGroup": "", "holderT.isGroup": ""}
	_, _, rep, err := Normalize(fset, files, pkg, info, known, check)
	if err != nil {
		t.Fatalf("normalise: %v", err)
	}
	t.Logf("expanded=%v removed=%v skipped=%v rounds=%d split=%v", rep.Expanded, rep.Removed, rep.Skipped, rep.Rounds, rep.Split)
	wantSplit := map[string]bool{"interface method choose(parameter #0)": false, "describePair(parameter p)": false}
	for _, sp := range rep.Split {
		if _, ok := wantSplit[sp]; ok {
			wantSplit[sp] = true
		}
	}
	for k, seen := range wantSplit {
		if !seen {
			t.Errorf("expected parameter object to be taken apart: %s (got %v)", k, rep.Split)
		}
	}
	for _, want := range []string{"enum presence -> bool", "array pairOf -> struct", "struct flags written out in its holders", "struct span written out in its holders", "struct pairOf written out in its holders", "field holderT.voice with forwarding methods -> embedded speaker"} {
		seen := false
		for _, got := range rep.Types {
			if got == want {
				seen = true
			}
		}
		if !seen {
			t.Errorf("expected type rewrite %q, got %v", want, rep.Types)
		}
	}
	if rep.Expanded["(method value) objects.tag"] == 0 && rep.Expanded["(method value) objects.w.tag"] == 0 {
		t.Errorf("expected the method value tag to be inlined, got %v", rep.Expanded)
	}
	if len(rep.Split) < 2 {
		t.Errorf("expected the tracker and the verdict variables to be split, got %v", rep.Split)
	}
	for _, must := range []string{"isContainer", "classify", "both", "node.depth", "node.last", "wrapper.bump", "outcome", "finish", "sum", "twice", "double", "describe", "tracker.add", "tracker.summary", "newVerdict", "verdict.rejects", "keep"} {
		if rep.Expanded[must] == 0 {
			t.Errorf("helper %s was not expanded", must)
		}
	}
	for _, never := range []string{"fact", "newNode"} {
		if rep.Expanded[never] != 0 {
			t.Errorf("%s must not be expanded", never)
		}
	}
	if os.Getenv("NORMAL_DUMP") != "" {
		printer.Fprint(os.Stderr, token.NewFileSet(), f)
	}
	var buf bytes.Buffer
	if err := printer.Fprint(&buf, token.NewFileSet(), f); err != nil {
		t.Fatal(err)
	}
	dir := t.TempDir()
	if err := os.WriteFile(filepath.Join(dir, "main.go"), buf.Bytes(), 0o644); err != nil {
		t.Fatal(err)
	}
	os.WriteFile(filepath.Join(dir, "go.mod"), []byte("module fix\n\ngo 1.21\n"), 0o644)
	runGo := func(d string) string {
		cmd := exec.Command("go", "run", ".")
		cmd.Dir = d
		cmd.Env = append(os.Environ(), "GOFLAGS=-mod=mod", "GOPROXY=off", "GOWORK=off")
		out, err := cmd.CombinedOutput()
		if err != nil {
			t.Fatalf("go run in %s: %v\n%s\n---- source ----\n%s", d, err, out, buf.String())
		}
		return string(out)
	}
	orig := t.TempDir()
	b, _ := os.ReadFile(src)
	os.WriteFile(filepath.Join(orig, "main.go"), b, 0o644)
	os.WriteFile(filepath.Join(orig, "go.mod"), []byte("module fix\n\ngo 1.21\n"), 0o644)
	want, got := runGo(orig), runGo(dir)
	if want != got {
		t.Fatalf("output differs after normalisation\n---- want ----\n%s\n---- got ----\n%s\n---- source ----\n%s", want, got, buf.String())
	}
	if len(want) < 100 {
		t.Fatalf("fixture printed too little: %q", want)
	}
}
