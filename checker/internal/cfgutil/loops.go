// Package cfgutil has CFG helpers over go/ssa: natural loops, reachability
// after an instruction, induction-variable recognition.
package cfgutil

import (
	"go/constant"
	"go/token"
	"go/types"
	"sort"

	"golang.org/x/tools/go/ssa"
)

// Loop is a natural loop.
type Loop struct {
	Header *ssa.BasicBlock
	Blocks map[*ssa.BasicBlock]bool
	Latch  []*ssa.BasicBlock // sources of back edges
	// Exits are edges from a loop block to a block outside the loop.
	Exits []Edge
}

type Edge struct{ From, To *ssa.BasicBlock }

// Loops returns the natural loops of fn (loops sharing a header are merged), outermost first by header index.
func Loops(fn *ssa.Function) []*Loop {
	byHeader := map[*ssa.BasicBlock]*Loop{}
	for _, b := range fn.Blocks {
		for _, s := range b.Succs {
			if s.Dominates(b) { // back edge b -> s
				l := byHeader[s]
				if l == nil {
					l = &Loop{Header: s, Blocks: map[*ssa.BasicBlock]bool{s: true}}
					byHeader[s] = l
				}
				l.Latch = append(l.Latch, b)
				// collect body: nodes reaching b without passing through s
				var stack []*ssa.BasicBlock
				if !l.Blocks[b] {
					l.Blocks[b] = true
					stack = append(stack, b)
				}
				for len(stack) > 0 {
					x := stack[len(stack)-1]
					stack = stack[:len(stack)-1]
					for _, p := range x.Preds {
						if !l.Blocks[p] {
							l.Blocks[p] = true
							stack = append(stack, p)
						}
					}
				}
			}
		}
	}
	var out []*Loop
	for _, l := range byHeader {
		for b := range l.Blocks {
			for _, s := range b.Succs {
				if !l.Blocks[s] {
					l.Exits = append(l.Exits, Edge{b, s})
				}
			}
		}
		sort.Slice(l.Exits, func(i, j int) bool {
			if l.Exits[i].From.Index != l.Exits[j].From.Index {
				return l.Exits[i].From.Index < l.Exits[j].From.Index
			}
			return l.Exits[i].To.Index < l.Exits[j].To.Index
		})
		out = append(out, l)
	}
	sort.Slice(out, func(i, j int) bool { return out[i].Header.Index < out[j].Header.Index })
	return out
}

// InnermostLoop returns the innermost loop containing block b, or nil.
func InnermostLoop(loops []*Loop, b *ssa.BasicBlock) *Loop {
	var best *Loop
	for _, l := range loops {
		if l.Blocks[b] && (best == nil || len(l.Blocks) < len(best.Blocks)) {
			best = l
		}
	}
	return best
}

// ConstInt returns the integer value of a constant.
func ConstInt(v ssa.Value) (int64, bool) {
	c, ok := v.(*ssa.Const)
	if !ok || c.Value == nil || c.Value.Kind() != constant.Int {
		return 0, false
	}
	i, ok := constant.Int64Val(c.Value)
	return i, ok
}

// LoopKind classifies the iteration scheme of a loop.
type LoopKind int

const (
	LoopUnknown    LoopKind = iota
	LoopAscending           // idx from 0 (or -1 pre-incremented) by +1 while idx < len(X) / bound
	LoopDescending          // idx from len(X)-1 by -1 while idx >= 0
	LoopMapRange            // range over a map
	LoopWorklist            // while len(W) > 0 with W a loop-carried slice
	LoopStringRange
	LoopAscendingFrom // idx from a constant k > 0 by +1 while idx < bound (skips the first k elements on purpose)
)

// Induction describes a recognised counted loop.
type Induction struct {
	Kind  LoopKind
	Phi   *ssa.Phi  // the induction phi
	Index ssa.Value // the value used as index inside the body
	Bound ssa.Value // len(...) operand or bound value (ascending); start expression (descending)
	Cond  *ssa.If
	Range *ssa.Range
	Start int64 // LoopAscendingFrom: the first index
}

func lenOf(v ssa.Value) (ssa.Value, bool) {
	c, ok := v.(*ssa.Call)
	if !ok {
		return nil, false
	}
	b, ok := c.Call.Value.(*ssa.Builtin)
	if !ok || b.Name() != "len" {
		return nil, false
	}
	return c.Call.Args[0], true
}

// Classify recognises the iteration scheme of loop l.
func Classify(l *Loop) *Induction {
	h := l.Header
	ifi, _ := h.Instrs[len(h.Instrs)-1].(*ssa.If)
	// map range / string range: header contains Next
	for _, ins := range h.Instrs {
		if nx, ok := ins.(*ssa.Next); ok {
			if rg, ok := nx.Iter.(*ssa.Range); ok {
				k := LoopMapRange
				if nx.IsString {
					k = LoopStringRange
				}
				return &Induction{Kind: k, Cond: ifi, Range: rg}
			}
		}
	}
	if ifi == nil {
		return &Induction{Kind: LoopUnknown}
	}
	cond, ok := ifi.Cond.(*ssa.BinOp)
	if !ok {
		return &Induction{Kind: LoopUnknown, Cond: ifi}
	}
	inLoop := func(b *ssa.BasicBlock) bool { return l.Blocks[b] }
	trueInLoop := inLoop(h.Succs[0])
	// `if i >= n { break }` is `i < n` with the edges exchanged: judge the condition under which
	// the loop continues
	if !trueInLoop && inLoop(h.Succs[1]) {
		neg := map[token.Token]token.Token{token.LSS: token.GEQ, token.GEQ: token.LSS, token.GTR: token.LEQ, token.LEQ: token.GTR, token.EQL: token.NEQ, token.NEQ: token.EQL}
		if nop, ok := neg[cond.Op]; ok {
			cond = &ssa.BinOp{Op: nop, X: cond.X, Y: cond.Y}
			trueInLoop = true
		}
	}
	// ascending, go/ssa "rangeindex" form: phi(-1, t) ; t = phi+1 ; t < len
	// ascending, for-loop form: phi(0, phi+1) ; phi < bound
	// descending: phi(len-1, phi-1) ; phi >= 0
	// worklist: len(W) > 0, W a phi
	findPhi := func(v ssa.Value) (*ssa.Phi, ssa.Value) {
		// v is phi, or phi+1
		if p, ok := v.(*ssa.Phi); ok && p.Block() == h {
			return p, v
		}
		if bo, ok := v.(*ssa.BinOp); ok && bo.Op == token.ADD {
			if p, ok := bo.X.(*ssa.Phi); ok && p.Block() == h {
				if c, ok := ConstInt(bo.Y); ok && c == 1 {
					return p, v
				}
			}
		}
		return nil, nil
	}
	stepOf := func(p *ssa.Phi) (start ssa.Value, step int64, ok bool) {
		// exactly one edge from outside the loop and the others = p + step
		var outside []ssa.Value
		step = 0
		for i, e := range p.Edges {
			pred := h.Preds[i]
			if !l.Blocks[pred] {
				outside = append(outside, e)
				continue
			}
			// in-loop edge: e == p (continue paths carry same value? no) or e = p ± 1 or e = (p+1) itself
			bo, isBo := e.(*ssa.BinOp)
			if isBo && (bo.Op == token.ADD || bo.Op == token.SUB) {
				if bo.X == ssa.Value(p) {
					if c, okc := ConstInt(bo.Y); okc {
						s := c
						if bo.Op == token.SUB {
							s = -c
						}
						if step != 0 && step != s {
							return nil, 0, false
						}
						step = s
						continue
					}
				}
			}
			return nil, 0, false
		}
		if len(outside) != 1 || step == 0 {
			return nil, 0, false
		}
		return outside[0], step, true
	}
	op := cond.Op
	// `i != len(X)` with i counting up from 0 by one is `i < len(X)` (a length is never negative)
	if op == token.NEQ && trueInLoop {
		if _, isLen := lenOf(cond.Y); isLen {
			if p, idx := findPhi(cond.X); p != nil && idx == ssa.Value(p) {
				if start, step, ok := stepOf(p); ok && step == 1 {
					if s, okc := ConstInt(start); okc && s == 0 {
						op = token.LSS
					}
				}
			}
		}
	}
	switch op {
	case token.LSS:
		if !trueInLoop {
			break
		}
		p, idx := findPhi(cond.X)
		if p == nil {
			break
		}
		start, step, ok := stepOf(p)
		if !ok || step != 1 {
			break
		}
		s, okc := ConstInt(start)
		if !okc {
			break
		}
		// rangeindex form: start -1 and index is p+1; for form: start 0 and index is p
		if (s == -1 && idx != ssa.Value(p)) || (s == 0 && idx == ssa.Value(p)) {
			return &Induction{Kind: LoopAscending, Phi: p, Index: idx, Bound: cond.Y, Cond: ifi}
		}
		// counted loop from a later position (for i := k; i < bound; i++)
		if s > 0 && idx == ssa.Value(p) {
			return &Induction{Kind: LoopAscendingFrom, Phi: p, Index: idx, Bound: cond.Y, Cond: ifi, Start: s}
		}
	case token.GEQ:
		if !trueInLoop {
			break
		}
		p, ok2 := cond.X.(*ssa.Phi)
		if !ok2 || p.Block() != h {
			break
		}
		if c, okc := ConstInt(cond.Y); !okc || c != 0 {
			break
		}
		start, step, ok := stepOf(p)
		if !ok || step != -1 {
			break
		}
		return &Induction{Kind: LoopDescending, Phi: p, Index: p, Bound: start, Cond: ifi}
	case token.GTR:
		if !trueInLoop {
			break
		}
		if c, okc := ConstInt(cond.Y); !okc || c != 0 {
			break
		}
		if x, ok2 := lenOf(cond.X); ok2 {
			if p, ok3 := x.(*ssa.Phi); ok3 && p.Block() == h {
				return &Induction{Kind: LoopWorklist, Phi: p, Index: p, Cond: ifi}
			}
		}
	}
	// worklist in any spelling: the loop continues exactly while len(W) is not zero, W a
	// loop-carried slice (len(W) > 0, != 0, >= 1, 0 < len(W); or leaves on len(W) == 0, < 1, <= 0)
	{
		op, x, y := cond.Op, cond.X, cond.Y
		if _, isLen := lenOf(x); !isLen {
			if _, isLen2 := lenOf(y); isLen2 {
				x, y = y, x
				switch op {
				case token.LSS:
					op = token.GTR
				case token.GTR:
					op = token.LSS
				case token.LEQ:
					op = token.GEQ
				case token.GEQ:
					op = token.LEQ
				}
			}
		}
		if w, isLen := lenOf(x); isLen {
			if c, okc := ConstInt(y); okc {
				// nonEmptyOnTrue: the true edge means len(W) >= 1
				nonEmptyOnTrue, known := false, false
				switch {
				case op == token.GTR && c == 0, op == token.NEQ && c == 0, op == token.GEQ && c == 1:
					nonEmptyOnTrue, known = true, true
				case op == token.EQL && c == 0, op == token.LSS && c == 1, op == token.LEQ && c == 0:
					nonEmptyOnTrue, known = false, true
				}
				if known && nonEmptyOnTrue == trueInLoop && inLoop(h.Succs[0]) != inLoop(h.Succs[1]) {
					if p, ok3 := w.(*ssa.Phi); ok3 && p.Block() == h {
						return &Induction{Kind: LoopWorklist, Phi: p, Index: p, Cond: ifi}
					}
				}
			}
		}
	}
	return &Induction{Kind: LoopUnknown, Cond: ifi}
}

// ReachableAfter returns the instructions that can execute after `from`
// without re-executing `stop` (stop may be nil).
func ReachableAfter(from ssa.Instruction, stop ssa.Instruction) []ssa.Instruction {
	var out []ssa.Instruction
	b := from.Block()
	idx := -1
	for i, x := range b.Instrs {
		if x == from {
			idx = i
		}
	}
	seen := map[*ssa.BasicBlock]bool{}
	var visit func(blk *ssa.BasicBlock, start int)
	visit = func(blk *ssa.BasicBlock, start int) {
		for _, ins := range blk.Instrs[start:] {
			if ins == stop {
				return
			}
			out = append(out, ins)
		}
		for _, s := range blk.Succs {
			if !seen[s] {
				seen[s] = true
				visit(s, 0)
			}
		}
	}
	visit(b, idx+1)
	return out
}

// Derived returns v and every value computed from it by loads, addressing,
// slicing, extraction, phis, conversions (the "values loaded from it").
func Derived(v ssa.Value) map[ssa.Value]bool {
	set := map[ssa.Value]bool{v: true}
	work := []ssa.Value{v}
	for len(work) > 0 {
		x := work[len(work)-1]
		work = work[:len(work)-1]
		refs := x.Referrers()
		if refs == nil {
			continue
		}
		for _, r := range *refs {
			var nv ssa.Value
			switch y := r.(type) {
			case *ssa.UnOp:
				if y.Op == token.MUL && y.X == x {
					nv = y
				}
			case *ssa.FieldAddr:
				if y.X == x {
					nv = y
				}
			case *ssa.IndexAddr:
				if y.X == x {
					nv = y
				}
			case *ssa.Slice:
				if y.X == x {
					nv = y
				}
			case *ssa.Field:
				nv = y
			case *ssa.Index:
				if y.X == x {
					nv = y
				}
			case *ssa.Phi:
				nv = y
			case *ssa.ChangeType:
				nv = y
			case *ssa.Convert:
				nv = y
			case *ssa.TypeAssert:
				nv = y
			case *ssa.Extract:
				nv = y
			case *ssa.MakeInterface:
				nv = y
			}
			if nv != nil {
				// only the structure of the object itself (pointers into it, its slices),
				// not element values copied out of it
				switch nv.Type().Underlying().(type) {
				case *types.Pointer, *types.Slice:
				default:
					nv = nil
				}
			}
			if nv != nil && !set[nv] {
				set[nv] = true
				work = append(work, nv)
			}
		}
	}
	return set
}
