package regions

import (
	"fmt"
	"go/types"

	"golang.org/x/tools/go/ssa"

	"verif/checker/internal/load"
)

// External callee classes (the library-call table, DESIGN.md App. A).
const (
	ClPure      = "pure"      // reads only; result (if pointer-like) is EXT(callee)
	ClWriteArg  = "write-arg" // writes through the listed pointer-like arguments
	ClCallback  = "callback"  // calls its function-typed arguments; otherwise pure
	ClPoolGet   = "pool-get"
	ClPoolPut   = "pool-put"
	ClPassThru  = "pure-passthrough" // reads only; result may alias / wrap its arguments (reflect readers)
	ClUntabled  = "untabled"         // conservatively writes everything reachable from pointer-like args
	ClUserFn    = "user-function"
	ClLockUnlck = "sync"
)

type extSpec struct {
	class string
	write []int // argument indices (receiver = 0 for methods) written through
}

// extTable is keyed by ssa.Function.String().
var extTable = map[string]extSpec{
	"reflect.TypeOf":                        {class: ClPure},
	"(*reflect.rtype).String":               {class: ClPure},
	"(reflect.Type).String":                 {class: ClPure},
	"reflect.DeepEqual":                     {class: ClPure},
	"(*regexp.Regexp).MatchString":          {class: ClPure},
	"(*regexp.Regexp).FindStringSubmatch":   {class: ClPure},
	"(*regexp.Regexp).ReplaceAllStringFunc": {class: ClCallback},
	"regexp.Compile":                        {class: ClPure},
	"regexp.MustCompile":                    {class: ClPure},
	"(encoding/json.Number).Float64":        {class: ClPure},
	"encoding/json.Unmarshal":               {class: ClWriteArg, write: []int{1}},
	"strconv.Atoi":                          {class: ClPure},
	"strconv.ParseFloat":                    {class: ClPure},
	"strconv.ParseInt":                      {class: ClPure},
	"strconv.Quote":                         {class: ClPure},
	"(sort.StringSlice).Sort":               {class: ClWriteArg, write: []int{0}},
	"(*sort.StringSlice).Sort":              {class: ClWriteArg, write: []int{0}},
	"sort.Strings":                          {class: ClWriteArg, write: []int{0}},
	"sort.Ints":                             {class: ClWriteArg, write: []int{0}},
	"reflect.ValueOf":                       {class: ClPassThru},
	"reflect.Indirect":                      {class: ClPassThru},
	"(reflect.Value).Elem":                  {class: ClPassThru},
	"(reflect.Value).Index":                 {class: ClPassThru},
	"(reflect.Value).MapIndex":              {class: ClPassThru},
	"(reflect.Value).Field":                 {class: ClPassThru},
	"(reflect.Value).Interface":             {class: ClPassThru},
	"(reflect.Value).Type":                  {class: ClPure},
	"(reflect.Value).Kind":                  {class: ClPure},
	"(reflect.Value).IsNil":                 {class: ClPure},
	"(reflect.Value).IsValid":               {class: ClPure},
	"(reflect.Value).IsZero":                {class: ClPure},
	"(reflect.Value).Pointer":               {class: ClPure},
	"(reflect.Value).UnsafePointer":         {class: ClPure},
	"(reflect.Value).Len":                   {class: ClPure},
	"(reflect.Value).NumField":              {class: ClPure},
	"(reflect.Value).String":                {class: ClPure},
	"(reflect.Value).Int":                   {class: ClPure},
	"(reflect.Value).Float":                 {class: ClPure},
	"(reflect.Value).Bool":                  {class: ClPure},
	"(reflect.Value).CanInterface":          {class: ClPure},
	"(*reflect.rtype).Kind":                 {class: ClPure},
	"(*reflect.rtype).Name":                 {class: ClPure},
	"(*reflect.rtype).Elem":                 {class: ClPure},
	"(*sync.Mutex).Lock":                    {class: ClLockUnlck},
	"(*sync.Mutex).Unlock":                  {class: ClLockUnlck},
	"(*sync.Pool).Get":                      {class: ClPoolGet},
	"(*sync.Pool).Put":                      {class: ClPoolPut},
	"fmt.Sprintf":                           {class: ClPure},
	"fmt.Sprint":                            {class: ClPure},
	"fmt.Errorf":                            {class: ClPure},
	"errors.New":                            {class: ClPure},
	"strings.Contains":                      {class: ClPure},
	"strings.HasPrefix":                     {class: ClPure},
	"(*bytes.Buffer).String":                {class: ClPure},
	"unicode/utf8.RuneCountInString":        {class: ClPure},
	"(error).Error":                         {class: ClPure},
	"(*strings.Builder).String":             {class: ClPure},
	"(*strings.Builder).WriteString":        {class: ClWriteArg, write: []int{0}},
	"(*strings.Builder).WriteByte":          {class: ClWriteArg, write: []int{0}},
	"(*strings.Builder).WriteRune":          {class: ClWriteArg, write: []int{0}},
	"(*bytes.Buffer).WriteString":           {class: ClWriteArg, write: []int{0}},
	"(*bytes.Buffer).WriteByte":             {class: ClWriteArg, write: []int{0}},
	"(*bytes.Buffer).Write":                 {class: ClWriteArg, write: []int{0}},
}

func (a *Analysis) genCall(fn *ssa.Function, ins ssa.CallInstruction, c *ssa.CallCommon, res ssa.Value) {
	// builtins
	if b, ok := c.Value.(*ssa.Builtin); ok {
		a.genBuiltin(fn, ins, b, c, res)
		return
	}
	if c.IsInvoke() {
		a.addComplex(a.val(c.Value), &cxInvoke{site: ins, common: c, res: res})
		return
	}
	if callee := c.StaticCallee(); callee != nil {
		a.bindCall(ins, c, res, callee, nil, nil)
		return
	}
	// dynamic call through a function value
	a.addComplex(a.val(c.Value), &cxDynCall{site: ins, common: c, res: res})
}

// resNode returns the node receiving result i of a call.
func (a *Analysis) resNode(res ssa.Value, i, n int) *Node {
	if res == nil {
		return nil
	}
	if n == 1 {
		return a.val(res)
	}
	return a.valIdx(res, i)
}

func (a *Analysis) recordEdge(site ssa.CallInstruction, callee *ssa.Function, ext string) {
	caller := site.Parent()
	key := fmt.Sprintf("%p|%p|%s", site, callee, ext)
	if a.callSet[key] {
		return
	}
	a.callSet[key] = true
	a.Calls = append(a.Calls, &CallEdge{Site: site, Caller: caller, Callee: callee, Ext: ext})
	if callee != nil {
		if a.edges[caller] == nil {
			a.edges[caller] = map[*ssa.Function]bool{}
		}
		a.edges[caller][callee] = true
	}
}

// bindCall wires arguments/results for a resolved callee. recvNode (if not
// nil) is passed as the first parameter (invoke / bound receiver); closure is
// the closure object when called through a function value.
func (a *Analysis) bindCall(site ssa.CallInstruction, c *ssa.CallCommon, res ssa.Value, callee *ssa.Function, recvNode *Node, closure *Object) {
	if a.skip[callee] {
		return
	}
	if !a.P.InPkg(callee) || callee.Blocks == nil {
		a.extCall(site, c, res, callee, recvNode)
		return
	}
	first := !a.callSet[fmt.Sprintf("%p|%p|", site, callee)]
	a.recordEdge(site, callee, "")
	a.genFunc(callee)
	ps := a.paramNodes(callee)
	args := c.Args
	pi := 0
	if c.IsInvoke() {
		// receiver: bound for every box that resolves to this callee
		if recvNode != nil && len(ps) > 0 {
			a.addCopy(ps[0], recvNode)
		}
		pi++
	}
	if !first {
		return
	}
	for _, arg := range args {
		if pi < len(ps) && ps[pi] != nil {
			a.addCopy(ps[pi], a.val(arg))
		}
		pi++
	}
	rs := a.resultNodes(callee)
	for i, rn := range rs {
		if rn != nil {
			a.addCopy(a.resNode(res, i, len(rs)), rn)
		}
	}
}

// cxDynCall: call through a function value.
type cxDynCall struct {
	site   ssa.CallInstruction
	common *ssa.CallCommon
	res    ssa.Value
}

func (c *cxDynCall) apply(a *Analysis, o *Object, at *Node) {
	switch o.Kind {
	case KFunc:
		a.bindCall(c.site, c.common, c.res, o.Func, nil, o)
	case KExt:
		a.userCall(c.site, c.common, c.res, o)
	}
}

// userCall models a call of a user-supplied function value: opaque,
// read-only consumer; result is a user value.
func (a *Analysis) userCall(site ssa.CallInstruction, c *ssa.CallCommon, res ssa.Value, o *Object) {
	a.recordEdge(site, nil, "user:"+o.Ext)
	ec := &ExtCall{Site: site, Fn: site.Parent(), Callee: "user function (" + o.Ext + ")", Tabled: true, Class: ClUserFn}
	for _, arg := range c.Args {
		ec.args = append(ec.args, a.val(arg))
	}
	a.ExtCalls = append(a.ExtCalls, ec)
	if res != nil {
		n := c.Signature().Results().Len()
		for i := 0; i < n; i++ {
			if rn := a.resNode(res, i, n); rn != nil {
				a.addObj(rn, a.ext(ExtUSERVAL), nil)
			}
		}
	}
}

// cxInvoke: interface method call.
type cxInvoke struct {
	site   ssa.CallInstruction
	common *ssa.CallCommon
	res    ssa.Value
}

func (c *cxInvoke) apply(a *Analysis, o *Object, at *Node) {
	switch o.Kind {
	case KBox:
		m := a.P.Prog.LookupMethod(o.Typ, c.common.Method.Pkg(), c.common.Method.Name())
		if m == nil {
			return
		}
		a.bindCall(c.site, c.common, c.res, m, o.mem, nil)
		if o.mem == nil {
			// receiver carries no pointers; still need the edge
		}
	case KExt:
		// method call on an external value (e.g. error.Error on a user error)
		a.recordEdge(c.site, nil, "ext-invoke:"+o.Ext+"."+c.common.Method.Name())
		ec := &ExtCall{Site: c.site, Fn: c.site.Parent(), Callee: "method " + c.common.Method.Name() + " of external value (" + o.Ext + ")", Tabled: true, Class: ClUserFn}
		for _, arg := range c.common.Args {
			ec.args = append(ec.args, a.val(arg))
		}
		a.ExtCalls = append(a.ExtCalls, ec)
		if c.res != nil {
			n := c.common.Signature().Results().Len()
			for i := 0; i < n; i++ {
				if rn := a.resNode(c.res, i, n); rn != nil {
					a.addObj(rn, a.ext(ExtUSERVAL), nil)
				}
			}
		}
	}
}

// extCall models a call to a function outside the package.
func (a *Analysis) extCall(site ssa.CallInstruction, c *ssa.CallCommon, res ssa.Value, callee *ssa.Function, recvNode *Node) {
	name := callee.String()
	key := fmt.Sprintf("%p|%p|ext", site, callee)
	if a.callSet[key] {
		return
	}
	a.recordEdge(site, callee, "ext")
	a.callSet[key] = true
	spec, tabled := extTable[name]
	if !tabled {
		spec = extSpec{class: ClUntabled}
	}
	var args []*Node
	if recvNode != nil {
		args = append(args, recvNode)
	}
	for _, arg := range c.Args {
		args = append(args, a.val(arg))
	}
	ec := &ExtCall{Site: site, Fn: site.Parent(), Callee: name, Tabled: tabled, Class: spec.class, args: args}
	a.ExtCalls = append(a.ExtCalls, ec)

	nres := callee.Signature.Results().Len()
	extResult := func() {
		for i := 0; i < nres; i++ {
			if rn := a.resNode(res, i, nres); rn != nil {
				a.addObj(rn, a.ext("EXT("+name+")"), nil)
			}
		}
	}
	switch spec.class {
	case ClPure, ClLockUnlck:
		extResult()
	case ClPassThru:
		extResult()
		for i := 0; i < nres; i++ {
			if rn := a.resNode(res, i, nres); rn != nil {
				rn.typ = nil
				for _, an := range args {
					a.addCopy(rn, an)
				}
			}
		}
	case ClWriteArg:
		var addr []*Node
		for _, i := range spec.write {
			if i < len(args) && args[i] != nil {
				addr = append(addr, args[i])
			}
		}
		a.effect(site, "call:"+name, addr, nil, true)
		extResult()
	case ClCallback:
		for _, an := range args {
			if an != nil {
				a.addComplex(an, &cxCallback{site: site})
			}
		}
		extResult()
	case ClPoolGet:
		if len(args) > 0 && args[0] != nil {
			a.addComplex(args[0], &cxPoolGet{site: site, res: a.resNode(res, 0, 1)})
		}
	case ClPoolPut:
		if len(args) > 1 && args[0] != nil {
			a.addComplex(args[0], &cxPoolPut{src: args[1]})
		}
	default: // untabled
		var addr []*Node
		for _, an := range args {
			if an != nil {
				addr = append(addr, an)
				a.addComplex(an, &cxCallback{site: site})
			}
		}
		a.effect(site, "call:"+name+" (untabled)", addr, nil, true)
		extResult()
	}
}

// cxCallback: an external callee may call function values passed to it.
type cxCallback struct{ site ssa.CallInstruction }

func (c *cxCallback) apply(a *Analysis, o *Object, at *Node) {
	if o.Kind != KFunc {
		return
	}
	fn := o.Func
	if !a.P.InPkg(fn) || fn.Blocks == nil {
		return
	}
	a.recordEdge(c.site, fn, "")
	a.genFunc(fn)
	// parameters come from the external caller: strings etc.; pointer-like ones unknown
	for _, pn := range a.paramNodes(fn) {
		if pn != nil {
			a.addObj(pn, a.ext("EXT(callback-arg)"), nil)
		}
	}
}

func (a *Analysis) poolContent(p *Object) *Node {
	if n, ok := a.poolNodes[p]; ok {
		return n
	}
	n := a.newNode(nil, "pool-content("+p.String()+")")
	a.poolNodes[p] = n
	return n
}

// cxPoolGet: result ⊇ New()'s results ∪ everything Put.
type cxPoolGet struct {
	site ssa.CallInstruction
	res  *Node
}

func (c *cxPoolGet) apply(a *Analysis, o *Object, at *Node) {
	if o.Kind == KFunc || o.Kind == KBox {
		return
	}
	if c.res != nil {
		a.addCopy(c.res, a.poolContent(o))
	}
	// New field: the func-typed field of sync.Pool
	if o.Kind == KExt {
		return
	}
	st, ok := o.Typ.Underlying().(*types.Struct)
	if !ok {
		return
	}
	for i := 0; i < st.NumFields(); i++ {
		if st.Field(i).Name() == "New" {
			nf := a.Sub(o, fieldKey(i), st.Field(i).Type())
			a.addComplex(a.Mem(nf), &cxPoolNew{site: c.site, res: c.res})
		}
	}
}

type cxPoolNew struct {
	site ssa.CallInstruction
	res  *Node
}

func (c *cxPoolNew) apply(a *Analysis, o *Object, at *Node) {
	if o.Kind != KFunc || !a.P.InPkg(o.Func) {
		return
	}
	fn := o.Func
	a.PoolCtor[fn] = true
	a.recordEdge(c.site, fn, "")
	a.genFunc(fn)
	rs := a.resultNodes(fn)
	if len(rs) > 0 && rs[0] != nil && c.res != nil {
		a.addCopy(c.res, rs[0])
	}
}

type cxPoolPut struct{ src *Node }

func (c *cxPoolPut) apply(a *Analysis, o *Object, at *Node) {
	if o.Kind == KFunc || o.Kind == KBox {
		return
	}
	a.addCopy(a.poolContent(o), c.src)
}

func (a *Analysis) genBuiltin(fn *ssa.Function, ins ssa.CallInstruction, b *ssa.Builtin, c *ssa.CallCommon, res ssa.Value) {
	switch b.Name() {
	case "append":
		// res = append(s, t...)
		st, ok := c.Args[0].Type().Underlying().(*types.Slice)
		if !ok {
			return
		}
		dst := a.val(res)
		s := a.val(c.Args[0])
		t := a.val(c.Args[1])
		fresh := a.arrayObj(ins, st.Elem(), "append "+shortType(c.Args[0].Type()))
		if dst != nil {
			a.addCopy(dst, s)
			a.addObj(dst, fresh, nil)
		}
		var vals []*Node
		if pointerLike(st.Elem()) {
			// element values of t flow into every array the result may denote
			ev := a.newNode(st.Elem(), fmt.Sprintf("appended elems @%s", a.posLabel(ins.Pos())))
			if _, isStr := c.Args[1].Type().Underlying().(*types.Basic); !isStr {
				a.addComplex(t, &cxElemLoad{dst: ev, typ: st.Elem()})
				// old elements are copied into the fresh array
				a.addComplex(s, &cxElemLoad{dst: ev, typ: st.Elem()})
			}
			if dst != nil {
				a.addComplex(dst, &cxElemStore{src: ev, typ: st.Elem()})
			}
			vals = []*Node{ev}
		}
		// effect: spare capacity of the first argument
		a.effect(ins, "append", []*Node{s}, vals, false).elems = true
	case "copy":
		d := a.val(c.Args[0])
		s := a.val(c.Args[1])
		var vals []*Node
		if st, ok := c.Args[0].Type().Underlying().(*types.Slice); ok && pointerLike(st.Elem()) {
			ev := a.newNode(st.Elem(), fmt.Sprintf("copied elems @%s", a.posLabel(ins.Pos())))
			a.addComplex(s, &cxElemLoad{dst: ev, typ: st.Elem()})
			a.addComplex(d, &cxElemStore{src: ev, typ: st.Elem()})
			vals = []*Node{ev}
		}
		a.effect(ins, "copy", []*Node{d}, vals, false).elems = true
	case "delete":
		a.effect(ins, "delete", []*Node{a.val(c.Args[0])}, nil, false)
	case "clear":
		a.effect(ins, "clear", []*Node{a.val(c.Args[0])}, nil, false)
	case "recover":
		if res != nil {
			rn := a.val(res)
			a.addCopy(rn, a.panicNode)
			a.addObj(rn, a.ext("EXT(runtime-panic)"), nil)
		}
	case "len", "cap", "print", "println", "min", "max", "real", "imag", "complex", "close":
	case "ssa:wrapnilchk":
		if res != nil {
			a.addCopy(a.val(res), a.val(c.Args[0]))
		}
	default:
		a.unknown("builtin %s in %s", b.Name(), load.FuncName(fn))
	}
}
