package regions

import (
	"fmt"
	"io"
	"sort"

	"golang.org/x/tools/go/ssa"

	"verif/checker/internal/load"
)

// DumpCalls prints the engine call graph (debugging).
func (a *Analysis) DumpCalls(w io.Writer) {
	var fs []*ssa.Function
	for f := range a.edges {
		fs = append(fs, f)
	}
	sort.Slice(fs, func(i, j int) bool { return fs[i].String() < fs[j].String() })
	for _, f := range fs {
		for _, c := range a.Edges(f) {
			fmt.Fprintf(w, "%s -> %s\n", load.FuncName(f), load.FuncName(c))
		}
	}
}

// DumpValue prints the points-to set of every value of fn (debugging).
func (a *Analysis) DumpFunc(w io.Writer, fn *ssa.Function) {
	for _, b := range fn.Blocks {
		for _, ins := range b.Instrs {
			if v, ok := ins.(ssa.Value); ok {
				if n := a.val(v); n != nil {
					fmt.Fprintf(w, "  %s = %s : ", v.Name(), ins.String())
					for _, o := range n.Pts() {
						fmt.Fprintf(w, "%s; ", o)
					}
					fmt.Fprintln(w)
				}
			}
		}
	}
}
