package regions

import (
	"go/types"
)

// cxSubAddr: dst ∋ sub(o,key) for o ∈ pts(x)   (FieldAddr / IndexAddr)
type cxSubAddr struct {
	dst    *Node
	key    string
	typ    types.Type
	viaArr bool
}

func (c *cxSubAddr) apply(a *Analysis, o *Object, at *Node) {
	if o.Kind == KFunc || o.Kind == KBox {
		return
	}
	if c.viaArr && o.Kind != KExt && !o.IsArr {
		return
	}
	a.addObjVia(c.dst, a.Sub(o, c.key, c.typ), at, o)
}

// leaves enumerates the scalar pointer-like cells below object o of content type t.
func (a *Analysis) leaves(o *Object, t types.Type, f func(l *Object, lt types.Type), depth int) {
	if o.Kind == KExt {
		f(o, nil)
		return
	}
	if t == nil || depth > 8 {
		return
	}
	switch u := t.Underlying().(type) {
	case *types.Struct:
		for i := 0; i < u.NumFields(); i++ {
			ft := u.Field(i).Type()
			if pointerLike(ft) {
				a.leaves(a.Sub(o, fieldKey(i), ft), ft, f, depth+1)
			}
		}
	case *types.Array:
		if pointerLike(u.Elem()) {
			a.leaves(a.Sub(o, "*", u.Elem()), u.Elem(), f, depth+1)
		}
	default:
		if pointerLike(t) {
			f(o, t)
		}
	}
}

// cxLoad: dst ⊇ content of cell o, for o ∈ pts(addr)
type cxLoad struct {
	dst *Node
	typ types.Type
}

func (c *cxLoad) apply(a *Analysis, o *Object, at *Node) {
	if o.Kind == KFunc || o.Kind == KBox {
		return
	}
	if o.Kind == KExt {
		a.loadExt(c.dst, o, c.typ, at)
		return
	}
	a.leaves(o, c.typ, func(l *Object, lt types.Type) {
		a.addCopy(c.dst, a.Mem(l))
	}, 0)
}

// loadExt models a load out of an external, closed-under-load object.
func (a *Analysis) loadExt(dst *Node, o *Object, t types.Type, at *Node) {
	if dst == nil {
		return
	}
	if o.Ext == ExtCFG && t != nil {
		if _, isFunc := t.Underlying().(*types.Signature); isFunc {
			a.addObj(dst, a.ext(ExtUSERFN), nil)
			a.addCopy(dst, a.cfgStored())
			return
		}
	}
	if o.Ext == ExtUSERFN {
		return
	}
	a.addObj(dst, o, at)
}

// cxStore: content of cell o ⊇ pts(src), for o ∈ pts(addr)
type cxStore struct {
	src *Node
	typ types.Type
}

func (c *cxStore) apply(a *Analysis, o *Object, at *Node) {
	if o.Kind == KFunc || o.Kind == KBox {
		return
	}
	if o.Kind == KExt {
		// stores into external memory are effects; the content is not tracked, except for
		// what the library itself puts into the configuration (wrappers around user functions)
		if o.Ext == ExtCFG {
			a.addCopy(a.cfgStored(), c.src)
		}
		return
	}
	a.leaves(o, c.typ, func(l *Object, lt types.Type) {
		a.addCopy(a.Mem(l), c.src)
	}, 0)
}

// cxMapLoad: dst ⊇ mem(sub(m,"*"|"k"))
type cxMapLoad struct {
	dst *Node
	typ types.Type
	key bool
}

func (c *cxMapLoad) apply(a *Analysis, o *Object, at *Node) {
	if o.Kind == KFunc || o.Kind == KBox || o.IsArr {
		return
	}
	if o.Kind == KExt {
		a.loadExt(c.dst, o, c.typ, at)
		return
	}
	k := "*"
	if c.key {
		k = "key"
	}
	s := a.Sub(o, k, c.typ)
	a.leaves(s, c.typ, func(l *Object, lt types.Type) {
		a.addCopy(c.dst, a.Mem(l))
	}, 0)
}

type cxMapStore struct {
	src *Node
	typ types.Type
	key bool
}

func (c *cxMapStore) apply(a *Analysis, o *Object, at *Node) {
	if o.Kind == KExt && o.Ext == ExtCFG && !c.key {
		a.addCopy(a.cfgStored(), c.src)
		return
	}
	if o.Kind == KFunc || o.Kind == KBox || o.Kind == KExt || o.IsArr {
		return
	}
	k := "*"
	if c.key {
		k = "key"
	}
	s := a.Sub(o, k, c.typ)
	a.leaves(s, c.typ, func(l *Object, lt types.Type) {
		a.addCopy(a.Mem(l), c.src)
	}, 0)
}

// cxAssert: type assertion on an interface value.
type cxAssert struct {
	dst *Node
	typ types.Type
}

func (c *cxAssert) apply(a *Analysis, o *Object, at *Node) {
	if o.Kind == KExt {
		a.addObj(c.dst, o, at)
		return
	}
	if o.Kind != KBox {
		return
	}
	if it, ok := c.typ.Underlying().(*types.Interface); ok {
		if it.NumMethods() == 0 || types.Implements(o.Typ, it) {
			a.addObj(c.dst, o, at)
		}
		return
	}
	if types.Identical(o.Typ, c.typ) && o.mem != nil {
		a.addCopy(c.dst, o.mem)
	}
}

// cxElemCopy: contents of array object o's elements ⊇ / ⊆ another node (append, copy)
type cxElemStore struct {
	src *Node
	typ types.Type
}

func (c *cxElemStore) apply(a *Analysis, o *Object, at *Node) {
	if !o.IsArr || o.Kind == KExt {
		return
	}
	s := a.Sub(o, "*", c.typ)
	a.leaves(s, c.typ, func(l *Object, lt types.Type) {
		a.addCopy(a.Mem(l), c.src)
	}, 0)
}

type cxElemLoad struct {
	dst *Node
	typ types.Type
}

func (c *cxElemLoad) apply(a *Analysis, o *Object, at *Node) {
	if o.Kind == KExt {
		a.loadExt(c.dst, o, c.typ, at)
		return
	}
	if !o.IsArr {
		return
	}
	s := a.Sub(o, "*", c.typ)
	a.leaves(s, c.typ, func(l *Object, lt types.Type) {
		a.addCopy(c.dst, a.Mem(l))
	}, 0)
}

// cfgStored collects what library code stores into the caller's configuration.
func (a *Analysis) cfgStored() *Node {
	if a.cfgNode == nil {
		a.cfgNode = a.newNode(nil, "stored into Config")
	}
	return a.cfgNode
}
