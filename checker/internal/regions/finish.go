package regions

import (
	"sort"

	"golang.org/x/tools/go/ssa"

	"verif/checker/internal/load"
)

// Object classes used by the rules.
const (
	ClsDOC     = "DOC"
	ClsCFG     = "CFG"
	ClsUSER    = "USER"    // user function values / user values
	ClsEXT     = "EXT"     // result of a library call
	ClsGLOBAL  = "GLOBAL"  // storage of a package-level variable
	ClsINIT    = "INIT"    // allocated by package initialisation
	ClsPOOL    = "POOL"    // allocated by a sync.Pool constructor
	ClsEVAL    = "EVAL"    // allocated during evaluation only
	ClsPARSE   = "PARSE"   // allocated during Parse only
	ClsMIXED   = "MIXED"   // allocation site reachable in both phases
	ClsUSERAPI = "USERAPI" // allocated in code only the user calls (Config setters, accessor closures)
	ClsFUNC    = "FUNC"
	ClsBOX     = "BOX"
)

func (a *Analysis) reach(roots []*ssa.Function, stop *ssa.Function) map[*ssa.Function]bool {
	set := map[*ssa.Function]bool{}
	var walk func(f *ssa.Function)
	walk = func(f *ssa.Function) {
		if f == nil || set[f] || f == stop {
			return
		}
		set[f] = true
		var cs []*ssa.Function
		for c := range a.edges[f] {
			cs = append(cs, c)
		}
		sort.Slice(cs, func(i, j int) bool { return cs[i].String() < cs[j].String() })
		for _, c := range cs {
			walk(c)
		}
	}
	for _, r := range roots {
		walk(r)
	}
	return set
}

func (a *Analysis) finish() {
	p := a.P
	a.EvalReach = a.reach([]*ssa.Function{p.EvalClosure}, nil)
	a.ParseReach = a.reach([]*ssa.Function{p.Roles.Parse}, p.EvalClosure)
	init := p.SSA.Members["init"].(*ssa.Function)
	a.InitReach = a.reach([]*ssa.Function{init}, nil)

	for _, e := range a.Effects {
		seen := map[*Object]bool{}
		add := func(o *Object) {
			if o != nil && !seen[o] {
				seen[o] = true
				e.Targets = append(e.Targets, o)
			}
		}
		for _, n := range e.addr {
			for _, o := range n.Pts() {
				if o.Kind == KFunc || o.Kind == KBox {
					continue
				}
				add(o)
				if e.deep {
					// one level down: what the cell/array holds
					for _, s := range a.reachableFrom(o, 3) {
						add(s)
					}
				}
			}
		}
		vs := map[*Object]bool{}
		for _, n := range e.val {
			for _, o := range n.Pts() {
				if !vs[o] {
					vs[o] = true
					e.Values = append(e.Values, o)
				}
			}
		}
	}
	for _, ec := range a.ExtCalls {
		for _, n := range ec.args {
			ec.Args = append(ec.Args, n.Pts())
		}
	}
}

// reachableFrom returns the objects reachable from o's contents within depth loads.
func (a *Analysis) reachableFrom(o *Object, depth int) []*Object {
	seen := map[*Object]bool{o: true}
	var out []*Object
	frontier := []*Object{o}
	for d := 0; d < depth && len(frontier) > 0; d++ {
		var next []*Object
		for _, x := range frontier {
			var cells []*Object
			cells = append(cells, x)
			for _, s := range x.subs {
				cells = append(cells, s)
				for _, s2 := range s.subs {
					cells = append(cells, s2)
				}
			}
			for _, c := range cells {
				if c.mem == nil {
					continue
				}
				for _, y := range c.mem.Pts() {
					if y.Kind == KBox {
						if y.mem != nil {
							for _, z := range y.mem.Pts() {
								if !seen[z] {
									seen[z] = true
									out = append(out, z)
									next = append(next, z)
								}
							}
						}
						continue
					}
					if y.Kind == KFunc {
						continue
					}
					if !seen[y] {
						seen[y] = true
						out = append(out, y)
						next = append(next, y)
					}
				}
			}
		}
		frontier = next
	}
	return out
}

// Class classifies the root of an object.
func (a *Analysis) Class(o *Object) string {
	r := o.Root()
	switch r.Kind {
	case KExt:
		switch r.Ext {
		case ExtDOC:
			return ClsDOC
		case ExtCFG:
			return ClsCFG
		case ExtUSERFN, ExtUSERVAL:
			return ClsUSER
		}
		return ClsEXT
	case KGlobal:
		return ClsGLOBAL
	case KFunc:
		return ClsFUNC
	case KBox:
		return ClsBOX
	}
	return a.SiteClass(r.Fn)
}

// SiteClass classifies an allocation site by the phases of its function.
func (a *Analysis) SiteClass(fn *ssa.Function) string {
	if fn == nil {
		return ClsEXT
	}
	// a closure inherits reachability of its own body
	if a.PoolCtor[fn] {
		return ClsPOOL
	}
	ev, pa, in := a.EvalReach[fn], a.ParseReach[fn], a.InitReach[fn]
	switch {
	case ev && pa:
		return ClsMIXED
	case ev:
		return ClsEVAL
	case pa:
		return ClsPARSE
	case in:
		return ClsINIT
	}
	return ClsUSERAPI
}

// EvalEffects returns the effect instructions in functions reachable during evaluation.
func (a *Analysis) EvalEffects() []*Effect {
	var out []*Effect
	for _, e := range a.Effects {
		if a.EvalReach[e.Fn] {
			out = append(out, e)
		}
	}
	return out
}

// ValueNode exposes the points-to node of an SSA value.
func (a *Analysis) ValueNode(v ssa.Value) *Node { return a.val(v) }

// ValueNodeIdx exposes the node of a tuple component.
func (a *Analysis) ValueNodeIdx(v ssa.Value, i int) *Node { return a.valIdx(v, i) }

// ResultNodes exposes the result nodes of a function.
func (a *Analysis) ResultNodes(fn *ssa.Function) []*Node { return a.resultNodes(fn) }

// Objects lists all objects.
func (a *Analysis) Objects() []*Object { return a.objs }

// MemOf returns the content node of a cell if it exists.
func (a *Analysis) MemOf(o *Object) *Node { return o.mem }

// Subs returns the sub-objects of o.
func (a *Analysis) Subs(o *Object) []*Object {
	var out []*Object
	for _, s := range o.subs {
		out = append(out, s)
	}
	sort.Slice(out, func(i, j int) bool { return out[i].ID < out[j].ID })
	return out
}

// PoolContent returns the pool content node for a pool object (nil if none).
func (a *Analysis) PoolContent(o *Object) *Node { return a.poolNodes[o] }

// GlobalObj returns the storage object of a global.
func (a *Analysis) GlobalObj(g *ssa.Global) *Object { return a.globalObj(g) }

// Edges returns the callees of fn in the engine's call graph.
func (a *Analysis) Edges(fn *ssa.Function) []*ssa.Function {
	var out []*ssa.Function
	for c := range a.edges[fn] {
		out = append(out, c)
	}
	sort.Slice(out, func(i, j int) bool { return out[i].String() < out[j].String() })
	return out
}

// FuncLabel is a helper for reports.
func FuncLabel(fn *ssa.Function) string { return load.FuncName(fn) }

// IsAccessorClosure reports whether fn is a closure stored in an Accessor field.
func IsAccessorClosure(a *Analysis, fn *ssa.Function) bool { return a.isAccessorClosure(fn) }

// ReachableObjects returns all objects reachable from o through loads (any depth).
func ReachableObjects(a *Analysis, o *Object) []*Object { return a.reachableFrom(o, 64) }

// WitnessForEffect explains how target t reached the address operand of effect e.
func (a *Analysis) WitnessForEffect(e *Effect, t *Object) []string {
	for _, n := range e.addr {
		if n == nil {
			continue
		}
		if n.pts[t] {
			return a.Witness(n, t)
		}
		// sub-object: explain its parent chain
		for x := t; x != nil; x = x.Parent {
			if n.pts[x] {
				return a.Witness(n, x)
			}
		}
	}
	return nil
}

// SubIfExists returns the sub-object of o for key, or nil.
func (a *Analysis) SubIfExists(o *Object, key string) *Object {
	if o == nil || o.subs == nil {
		return nil
	}
	return o.subs[key]
}

// FieldKey is the sub-object key of struct field i.
func FieldKey(i int) string { return fieldKey(i) }

// Under reports whether o is anc or a (transitive) sub-object of anc.
func Under(o, anc *Object) bool {
	for x := o; x != nil; x = x.Parent {
		if x == anc {
			return true
		}
	}
	return false
}

// FreeNodes exposes the free-variable nodes of a closure body.
func (a *Analysis) FreeNodes(fn *ssa.Function) []*Node { return a.freeNodes(fn) }

// AddrTargets returns the objects of the address operands of an effect (before deep expansion).
func (e *Effect) AddrObjects() []*Object {
	var out []*Object
	for _, n := range e.addr {
		out = append(out, n.Pts()...)
	}
	return out
}
