// Package regions is a whole-package, inclusion-based (Andersen) points-to and
// write-effect analysis over go/ssa, context-insensitive, field-sensitive for
// objects in memory, with an on-the-fly call graph (DESIGN.md §3.A, App. A).
package regions

import (
	"fmt"
	"go/types"
	"sort"
	"strings"

	"golang.org/x/tools/go/ssa"

	"verif/checker/internal/load"
)

type ObjKind int

const (
	KAlloc  ObjKind = iota // Alloc / MakeSlice / MakeMap / append / conversion allocation
	KGlobal                // storage of a package-level variable
	KFunc                  // function or closure object
	KBox                   // immutable interface payload box (one per MakeInterface site)
	KExt                   // external object, closed under load
	KSub                   // sub-object (field / element) of another object
)

// Object is an abstract memory location (or function / box).
type Object struct {
	ID     int
	Kind   ObjKind
	Typ    types.Type // type of the content of the cell (for arrays: the array/"slice backing" element container; see IsArr)
	IsArr  bool       // array-like object: element sub-object "*", Elem is the element type
	Elem   types.Type
	Site   ssa.Instruction // allocation site (nil for globals/ext/func)
	Fn     *ssa.Function   // function containing the site
	Label  string
	Parent *Object
	Key    string
	subs   map[string]*Object
	mem    *Node // pointer-like content of a scalar cell
	Ext    string
	Func   *ssa.Function // KFunc
	Clos   *ssa.MakeClosure
	bind   []*Node // closure bindings
	PoolOf *Object // for objects created by a Pool.New constructor: set later (phase), informational
}

func (o *Object) Root() *Object {
	for o.Parent != nil {
		o = o.Parent
	}
	return o
}

func (o *Object) String() string {
	if o.Parent != nil {
		return o.Parent.String() + "." + o.Key
	}
	return o.Label
}

// Node is a points-to variable.
type Node struct {
	id    int
	typ   types.Type // static type used as filter (nil = no filter)
	label string
	pts   map[*Object]bool
	order []*Object // insertion order, for deterministic iteration
	copy  []*Node   // pts(dst) ⊇ pts(this)
	cx    []complex // complex constraints triggered per object
	// predecessor info for witnesses: object -> (from node, as object)
	pred map[*Object]predLink
}

type predLink struct {
	n *Node
	o *Object // the object as which it was present in n (differs for sub-object derivation)
}

type complex interface {
	apply(a *Analysis, o *Object, at *Node)
}

// Effect is one instruction that can change memory, with its targets.
type Effect struct {
	Instr   ssa.Instruction
	Fn      *ssa.Function
	What    string  // store / mapupdate / append / copy / delete / call:<callee>
	addr    []*Node // nodes whose objects are the written cells
	deep    bool    // also everything reachable one level down (external writers)
	elems   bool    // addr nodes denote arrays/maps whose elements are written
	val     []*Node // nodes of the stored values (for escape rules)
	Targets []*Object
	Values  []*Object
}

// CallEdge is a resolved call.
type CallEdge struct {
	Site   ssa.CallInstruction
	Caller *ssa.Function
	Callee *ssa.Function // nil for user/ext calls
	Ext    string
}

// Analysis is the solved model.
type Analysis struct {
	P *load.Program

	objs    []*Object
	nodes   []*Node
	valNode map[nodeKey]*Node
	funcObj map[*ssa.Function]*Object
	globObj map[*ssa.Global]*Object
	extObj  map[string]*Object
	params  map[*ssa.Function][]*Node
	results map[*ssa.Function][]*Node
	frees   map[*ssa.Function][]*Node
	gen     map[*ssa.Function]bool
	skip    map[*ssa.Function]bool

	work []workItem

	Effects []*Effect
	Calls   []*CallEdge
	callSet map[string]bool
	edges   map[*ssa.Function]map[*ssa.Function]bool

	panicNode *Node
	cfgNode   *Node             // values library code stores into the configuration
	poolNodes map[*Object]*Node // pool object -> content
	PoolCtor  map[*ssa.Function]bool

	// external calls seen with pointer-like arguments: callee -> arg objects (for R-DOC-EXT)
	ExtCalls []*ExtCall

	Unknown []string // constructs the engine could not model (reported as undischarged)

	// Phases computed on the engine's own call graph.
	EvalReach  map[*ssa.Function]bool
	ParseReach map[*ssa.Function]bool
	InitReach  map[*ssa.Function]bool
}

type ExtCall struct {
	Site   ssa.CallInstruction
	Fn     *ssa.Function
	Callee string
	Tabled bool
	Class  string
	args   []*Node
	Args   [][]*Object
}

type nodeKey struct {
	v   ssa.Value
	idx int
}

type workItem struct {
	n *Node
	o *Object
}

// Well-known external objects.
const (
	ExtDOC     = "DOC"
	ExtCFG     = "CFG"
	ExtUSERFN  = "USERFN"
	ExtUSERVAL = "USERVAL"
)

func (a *Analysis) newNode(typ types.Type, label string) *Node {
	n := &Node{id: len(a.nodes), typ: typ, label: label, pts: map[*Object]bool{}}
	a.nodes = append(a.nodes, n)
	return n
}

func (a *Analysis) newObj(kind ObjKind, typ types.Type, label string) *Object {
	o := &Object{ID: len(a.objs), Kind: kind, Typ: typ, Label: label}
	a.objs = append(a.objs, o)
	return o
}

func (a *Analysis) ext(name string) *Object {
	if o, ok := a.extObj[name]; ok {
		return o
	}
	o := a.newObj(KExt, nil, name)
	o.Ext = name
	a.extObj[name] = o
	o.mem = a.newNode(nil, "mem("+name+")")
	// closed under load
	if name == ExtCFG {
		a.addObj(o.mem, o, nil)
	} else if name == ExtUSERFN {
		// function values: calling them is a user call; loading from them yields nothing new
	} else {
		a.addObj(o.mem, o, nil)
	}
	return o
}

// Sub returns (creating lazily) the sub-object of o for key.
func (a *Analysis) Sub(o *Object, key string, typ types.Type) *Object {
	if o.Kind == KExt {
		return o
	}
	if o.subs == nil {
		o.subs = map[string]*Object{}
	}
	if s, ok := o.subs[key]; ok {
		return s
	}
	s := a.newObj(KSub, typ, "")
	s.Parent = o
	s.Key = key
	s.Fn = o.Fn
	s.Site = o.Site
	a.shape(s, typ)
	o.subs[key] = s
	return s
}

// shape sets IsArr/Elem from the content type.
func (a *Analysis) shape(o *Object, typ types.Type) {
	if typ == nil {
		return
	}
	if at, ok := typ.Underlying().(*types.Array); ok {
		o.IsArr = true
		o.Elem = at.Elem()
	}
}

// Mem returns the content node of a scalar cell.
func (a *Analysis) Mem(o *Object) *Node {
	if o.mem == nil {
		o.mem = a.newNode(o.Typ, "mem("+o.String()+")")
	}
	return o.mem
}

func pointerLike(t types.Type) bool {
	return pointerLikeDepth(t, 0)
}

func pointerLikeDepth(t types.Type, d int) bool {
	if t == nil || d > 8 {
		return false
	}
	switch u := t.Underlying().(type) {
	case *types.Pointer, *types.Slice, *types.Map, *types.Chan, *types.Signature, *types.Interface:
		return true
	case *types.Struct:
		for i := 0; i < u.NumFields(); i++ {
			if pointerLikeDepth(u.Field(i).Type(), d+1) {
				return true
			}
		}
	case *types.Array:
		return pointerLikeDepth(u.Elem(), d+1)
	case *types.Tuple:
		for i := 0; i < u.Len(); i++ {
			if pointerLikeDepth(u.At(i).Type(), d+1) {
				return true
			}
		}
	}
	return false
}

// leafTypes lists the scalar pointer-like leaf types of a (possibly composite) type.
func leafTypes(t types.Type, out *[]types.Type, d int) {
	if t == nil || d > 8 {
		return
	}
	switch u := t.Underlying().(type) {
	case *types.Struct:
		for i := 0; i < u.NumFields(); i++ {
			leafTypes(u.Field(i).Type(), out, d+1)
		}
	case *types.Array:
		leafTypes(u.Elem(), out, d+1)
	case *types.Tuple:
		for i := 0; i < u.Len(); i++ {
			leafTypes(u.At(i).Type(), out, d+1)
		}
	default:
		if pointerLike(t) {
			*out = append(*out, t)
		}
	}
}

// compatible reports whether object o may be a member of a node of static type t.
func (a *Analysis) compatible(o *Object, t types.Type) bool {
	if t == nil || o.Kind == KExt {
		return true
	}
	switch u := t.Underlying().(type) {
	case *types.Pointer:
		if o.Kind == KFunc || o.Kind == KBox {
			return false
		}
		if at, ok := u.Elem().Underlying().(*types.Array); ok {
			return o.IsArr && types.Identical(o.Elem, at.Elem())
		}
		if o.IsArr && o.Kind != KSub && o.Kind != KGlobal {
			// array objects created by make/append are only pointed to by slices
			if _, isArrT := o.Typ.(*types.Array); !isArrT {
				return false
			}
		}
		return o.Typ != nil && types.Identical(o.Typ, u.Elem())
	case *types.Slice:
		return o.IsArr && o.Kind != KFunc && o.Kind != KBox && types.Identical(o.Elem, u.Elem())
	case *types.Map:
		if o.Kind == KFunc || o.Kind == KBox || o.IsArr {
			return false
		}
		return o.Typ != nil && types.Identical(o.Typ.Underlying(), u)
	case *types.Signature:
		if o.Kind != KFunc {
			return false
		}
		return types.Identical(o.Typ.Underlying(), u)
	case *types.Interface:
		if o.Kind != KBox {
			return false
		}
		if u.NumMethods() == 0 {
			return true
		}
		return types.Implements(o.Typ, u)
	case *types.Chan:
		return o.Kind == KAlloc
	case *types.Struct, *types.Array, *types.Tuple:
		var ls []types.Type
		leafTypes(t, &ls, 0)
		for _, l := range ls {
			if a.compatible(o, l) {
				return true
			}
		}
		return false
	}
	return true
}

func (a *Analysis) addObj(n *Node, o *Object, from *Node) {
	a.addObjVia(n, o, from, o)
}

// addObjVia adds o to n, recording that it was derived from object via in node from.
func (a *Analysis) addObjVia(n *Node, o *Object, from *Node, via *Object) {
	if n == nil || n.pts[o] {
		return
	}
	if !a.compatible(o, n.typ) {
		return
	}
	n.pts[o] = true
	n.order = append(n.order, o)
	if from != nil {
		if n.pred == nil {
			n.pred = map[*Object]predLink{}
		}
		n.pred[o] = predLink{from, via}
	}
	a.work = append(a.work, workItem{n, o})
}

func (a *Analysis) addCopy(dst, src *Node) {
	if dst == nil || src == nil || dst == src {
		return
	}
	for _, d := range src.copy {
		if d == dst {
			return
		}
	}
	src.copy = append(src.copy, dst)
	for _, o := range src.order {
		a.addObj(dst, o, src)
	}
}

func (a *Analysis) addComplex(n *Node, c complex) {
	if n == nil {
		return
	}
	n.cx = append(n.cx, c)
	for _, o := range append([]*Object(nil), n.order...) {
		c.apply(a, o, n)
	}
}

func (a *Analysis) solve() {
	for len(a.work) > 0 {
		it := a.work[len(a.work)-1]
		a.work = a.work[:len(a.work)-1]
		for _, d := range it.n.copy {
			a.addObj(d, it.o, it.n)
		}
		for _, c := range it.n.cx {
			c.apply(a, it.o, it.n)
		}
	}
}

// Pts returns the objects of a node in deterministic order.
func (n *Node) Pts() []*Object {
	if n == nil {
		return nil
	}
	out := append([]*Object(nil), n.order...)
	sort.Slice(out, func(i, j int) bool { return out[i].ID < out[j].ID })
	return out
}

// Witness reconstructs how object o reached node n (chain of node labels).
func (a *Analysis) Witness(n *Node, o *Object) []string {
	var out []string
	seen := map[*Node]bool{}
	for n != nil && !seen[n] {
		seen[n] = true
		out = append(out, n.label)
		if n.pred == nil {
			break
		}
		l, ok := n.pred[o]
		if !ok {
			break
		}
		n, o = l.n, l.o
	}
	// reverse
	for i, j := 0, len(out)-1; i < j; i, j = i+1, j-1 {
		out[i], out[j] = out[j], out[i]
	}
	if len(out) > 14 {
		out = append(out[:6], append([]string{"…"}, out[len(out)-7:]...)...)
	}
	return out
}

// describe renders an object for reports.
func (a *Analysis) Describe(o *Object) string {
	r := o.Root()
	s := o.String()
	switch r.Kind {
	case KAlloc:
		return fmt.Sprintf("%s", s)
	}
	return s
}

func shortType(t types.Type) string {
	if t == nil {
		return "?"
	}
	s := types.TypeString(t, func(p *types.Package) string { return "" })
	return strings.ReplaceAll(s, "interface{}", "any")
}
