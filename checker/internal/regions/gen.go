package regions

import (
	"fmt"
	"go/token"
	"go/types"

	"golang.org/x/tools/go/ssa"

	"verif/checker/internal/load"
)

// Analyze builds and solves the model for the whole package.
func Analyze(p *load.Program) *Analysis { return AnalyzeWithout(p, nil) }

// AnalyzeWithout solves the model with the bodies of the given functions
// removed (they neither execute nor call anything): what remains reachable or
// pointed-to does not depend on them.
func AnalyzeWithout(p *load.Program, skip map[*ssa.Function]bool) *Analysis {
	a := &Analysis{
		skip:      skip,
		P:         p,
		valNode:   map[nodeKey]*Node{},
		funcObj:   map[*ssa.Function]*Object{},
		globObj:   map[*ssa.Global]*Object{},
		extObj:    map[string]*Object{},
		params:    map[*ssa.Function][]*Node{},
		results:   map[*ssa.Function][]*Node{},
		frees:     map[*ssa.Function][]*Node{},
		gen:       map[*ssa.Function]bool{},
		callSet:   map[string]bool{},
		edges:     map[*ssa.Function]map[*ssa.Function]bool{},
		poolNodes: map[*Object]*Node{},
		PoolCtor:  map[*ssa.Function]bool{},
	}
	a.nodes = append(a.nodes, nil) // id 0 unused
	a.panicNode = a.newNode(nil, "panic-value")

	// external seeds
	doc := a.ext(ExtDOC)
	cfg := a.ext(ExtCFG)
	a.ext(ExtUSERFN)
	uval := a.ext(ExtUSERVAL)

	for _, fn := range p.Funcs {
		a.genFunc(fn)
	}

	// seeds: src of the evaluation closure and of Retrieve -> DOC; config -> CFG
	r := p.Roles
	seedParam := func(fn *ssa.Function, idx int, o *Object) {
		ps := a.paramNodes(fn)
		if idx < len(ps) && ps[idx] != nil {
			ps[idx].typ = nil
			a.addObj(ps[idx], o, nil)
		}
	}
	seedParam(p.EvalClosure, 0, doc)
	seedParam(r.Retrieve, 1, doc)
	seedParam(r.Retrieve, 2, cfg)
	seedParam(r.Parse, 1, cfg)
	// exported methods of Config: receiver -> CFG, function argument -> USERFN
	for _, fn := range p.Funcs {
		if fn.Signature.Recv() != nil && fn.Parent() == nil {
			rt := fn.Signature.Recv().Type()
			if pt, ok := rt.(*types.Pointer); ok {
				rt = pt.Elem()
			}
			if types.Identical(rt, r.Config) && fn.Object() != nil && fn.Object().Exported() {
				ps := a.paramNodes(fn)
				for i, pn := range ps {
					if pn == nil {
						continue
					}
					pn.typ = nil
					if i == 0 {
						a.addObj(pn, cfg, nil)
					} else {
						a.addObj(pn, a.ext(ExtUSERFN), nil)
					}
				}
			}
		}
	}
	// closures handed to the user (Accessor Get/Set): their parameters are user values
	for _, fn := range p.Funcs {
		if fn.Parent() != nil && a.isAccessorClosure(fn) {
			for _, pn := range a.paramNodes(fn) {
				if pn != nil {
					pn.typ = nil
					a.addObj(pn, uval, nil)
				}
			}
		}
	}

	a.solve()
	a.finish()
	return a
}

// isAccessorClosure: a closure whose MakeClosure value is stored into a field
// of the exported Accessor struct.
func (a *Analysis) isAccessorClosure(fn *ssa.Function) bool {
	parent := fn.Parent()
	if parent == nil {
		return false
	}
	for _, b := range parent.Blocks {
		for _, ins := range b.Instrs {
			var v ssa.Value
			switch m := ins.(type) {
			case *ssa.MakeClosure:
				if m.Fn == fn {
					v = m
				}
			}
			if v == nil {
				continue
			}
			for _, ref := range *v.Referrers() {
				if st, ok := ref.(*ssa.Store); ok {
					if fa, ok := st.Addr.(*ssa.FieldAddr); ok {
						if pt, ok := fa.X.Type().Underlying().(*types.Pointer); ok {
							if types.Identical(pt.Elem(), a.P.Roles.Accessor) {
								return true
							}
						}
					}
				}
			}
		}
	}
	// closure without free variables is a plain function value
	for _, b := range parent.Blocks {
		for _, ins := range b.Instrs {
			if st, ok := ins.(*ssa.Store); ok {
				if f, ok := st.Val.(*ssa.Function); ok && f == fn {
					if fa, ok := st.Addr.(*ssa.FieldAddr); ok {
						if pt, ok := fa.X.Type().Underlying().(*types.Pointer); ok {
							if types.Identical(pt.Elem(), a.P.Roles.Accessor) {
								return true
							}
						}
					}
				}
			}
		}
	}
	return false
}

func (a *Analysis) unknown(format string, args ...interface{}) {
	a.Unknown = append(a.Unknown, fmt.Sprintf(format, args...))
}

func (a *Analysis) paramNodes(fn *ssa.Function) []*Node {
	if ns, ok := a.params[fn]; ok {
		return ns
	}
	ns := make([]*Node, len(fn.Params))
	for i, p := range fn.Params {
		ns[i] = a.val(p)
	}
	a.params[fn] = ns
	return ns
}

func (a *Analysis) resultNodes(fn *ssa.Function) []*Node {
	if ns, ok := a.results[fn]; ok {
		return ns
	}
	res := fn.Signature.Results()
	ns := make([]*Node, res.Len())
	for i := 0; i < res.Len(); i++ {
		if pointerLike(res.At(i).Type()) {
			ns[i] = a.newNode(res.At(i).Type(), fmt.Sprintf("result#%d of %s", i, load.FuncName(fn)))
		}
	}
	a.results[fn] = ns
	return ns
}

func (a *Analysis) freeNodes(fn *ssa.Function) []*Node {
	if ns, ok := a.frees[fn]; ok {
		return ns
	}
	ns := make([]*Node, len(fn.FreeVars))
	for i, fv := range fn.FreeVars {
		ns[i] = a.val(fv)
	}
	a.frees[fn] = ns
	return ns
}

func (a *Analysis) posLabel(pos token.Pos) string { return a.P.RelPos(pos) }

func (a *Analysis) globalObj(g *ssa.Global) *Object {
	if o, ok := a.globObj[g]; ok {
		return o
	}
	et := g.Type().(*types.Pointer).Elem()
	o := a.newObj(KGlobal, et, "G("+g.Name()+")")
	if g.Pkg != a.P.SSA {
		o.Label = "G(" + g.Pkg.Pkg.Path() + "." + g.Name() + ")"
	}
	a.shape(o, et)
	a.globObj[g] = o
	return o
}

func (a *Analysis) functionObj(fn *ssa.Function) *Object {
	if o, ok := a.funcObj[fn]; ok {
		return o
	}
	o := a.newObj(KFunc, fn.Signature, "F("+load.FuncName(fn)+")")
	o.Func = fn
	a.funcObj[fn] = o
	return o
}

// val returns the node of an SSA value (nil if not pointer-like).
func (a *Analysis) val(v ssa.Value) *Node { return a.valIdx(v, -1) }

func (a *Analysis) valIdx(v ssa.Value, idx int) *Node {
	if v == nil {
		return nil
	}
	t := v.Type()
	if tup, ok := t.(*types.Tuple); ok {
		if idx < 0 || idx >= tup.Len() {
			return nil
		}
		t = tup.At(idx).Type()
	} else {
		idx = -1
	}
	if !pointerLike(t) {
		return nil
	}
	k := nodeKey{v, idx}
	if n, ok := a.valNode[k]; ok {
		return n
	}
	label := v.Name()
	if f := v.Parent(); f != nil {
		label = fmt.Sprintf("%s in %s", v.Name(), load.FuncName(f))
		if p := v.Pos(); p.IsValid() {
			label += " @" + a.posLabel(p)
		}
	}
	switch c := v.(type) {
	case *ssa.Const:
		n := a.newNode(t, "const")
		a.valNode[k] = n
		return n
	case *ssa.Global:
		n := a.newNode(nil, "&"+c.Name())
		a.valNode[k] = n
		a.addObj(n, a.globalObj(c), nil)
		return n
	case *ssa.Function:
		n := a.newNode(nil, "func "+load.FuncName(c))
		a.valNode[k] = n
		a.addObj(n, a.functionObj(c), nil)
		return n
	case *ssa.Builtin:
		return nil
	}
	if idx >= 0 {
		label += fmt.Sprintf("#%d", idx)
	}
	n := a.newNode(t, label)
	a.valNode[k] = n
	return n
}

// allocObj creates the object for an allocation-like instruction.
func (a *Analysis) allocObj(ins ssa.Instruction, contentType types.Type, what string) *Object {
	fn := ins.Parent()
	o := a.newObj(KAlloc, contentType, fmt.Sprintf("A(%s@%s in %s)", what, a.posLabel(ins.Pos()), load.FuncName(fn)))
	o.Site = ins
	o.Fn = fn
	a.shape(o, contentType)
	return o
}

func (a *Analysis) arrayObj(ins ssa.Instruction, elem types.Type, what string) *Object {
	fn := ins.Parent()
	o := a.newObj(KAlloc, nil, fmt.Sprintf("A(%s@%s in %s)", what, a.posLabel(ins.Pos()), load.FuncName(fn)))
	o.Site = ins
	o.Fn = fn
	o.IsArr = true
	o.Elem = elem
	return o
}

func (a *Analysis) genFunc(fn *ssa.Function) {
	if a.gen[fn] {
		return
	}
	a.gen[fn] = true
	if fn.Blocks == nil || a.skip[fn] {
		return
	}
	a.paramNodes(fn)
	a.freeNodes(fn)
	a.resultNodes(fn)
	for _, b := range fn.Blocks {
		for _, ins := range b.Instrs {
			a.genInstr(fn, ins)
		}
	}
}

func (a *Analysis) effect(ins ssa.Instruction, what string, addr []*Node, val []*Node, deep bool) *Effect {
	e := &Effect{Instr: ins, Fn: ins.Parent(), What: what, addr: addr, val: val, deep: deep}
	a.Effects = append(a.Effects, e)
	return e
}

func (a *Analysis) genInstr(fn *ssa.Function, ins ssa.Instruction) {
	switch v := ins.(type) {
	case *ssa.Alloc:
		et := v.Type().(*types.Pointer).Elem()
		o := a.allocObj(v, et, "alloc "+shortType(et))
		if v.Comment != "" {
			o.Label = fmt.Sprintf("A(%s %s@%s in %s)", v.Comment, shortType(et), a.posLabel(v.Pos()), load.FuncName(fn))
		}
		a.addObj(a.val(v), o, nil)
	case *ssa.MakeSlice:
		st := v.Type().Underlying().(*types.Slice)
		a.addObj(a.val(v), a.arrayObj(v, st.Elem(), "makeslice "+shortType(v.Type())), nil)
	case *ssa.MakeMap:
		o := a.allocObj(v, v.Type(), "makemap "+shortType(v.Type()))
		a.addObj(a.val(v), o, nil)
	case *ssa.MakeChan:
		o := a.allocObj(v, v.Type(), "makechan")
		a.addObj(a.val(v), o, nil)
	case *ssa.FieldAddr:
		st := v.X.Type().Underlying().(*types.Pointer).Elem().Underlying().(*types.Struct)
		ft := st.Field(v.Field).Type()
		a.addComplex(a.val(v.X), &cxSubAddr{dst: a.val(v), key: fieldKey(v.Field), typ: ft})
	case *ssa.IndexAddr:
		var et types.Type
		switch u := v.X.Type().Underlying().(type) {
		case *types.Slice:
			et = u.Elem()
		case *types.Pointer:
			et = u.Elem().Underlying().(*types.Array).Elem()
		}
		a.addComplex(a.val(v.X), &cxSubAddr{dst: a.val(v), key: "*", typ: et, viaArr: true})
	case *ssa.UnOp:
		switch v.Op {
		case token.MUL: // load
			if pointerLike(v.Type()) {
				a.addComplex(a.val(v.X), &cxLoad{dst: a.val(v), typ: v.Type()})
			}
		case token.ARROW:
			if pointerLike(v.Type()) {
				a.unknown("channel receive of pointer-like value in %s", load.FuncName(fn))
			}
		}
	case *ssa.Store:
		addr := a.val(v.Addr)
		var vals []*Node
		if pointerLike(v.Val.Type()) {
			vn := a.val(v.Val)
			vals = []*Node{vn}
			a.addComplex(addr, &cxStore{src: vn, typ: v.Val.Type()})
		}
		a.effect(v, "store", []*Node{addr}, vals, false)
	case *ssa.Field:
		a.addCopy(a.val(v), a.val(v.X))
	case *ssa.Index:
		// array value or string indexing
		if pointerLike(v.Type()) {
			a.addCopy(a.val(v), a.val(v.X))
		}
	case *ssa.Extract:
		a.addCopy(a.val(v), a.valIdx(v.Tuple, v.Index))
	case *ssa.Phi:
		for _, e := range v.Edges {
			a.addCopy(a.val(v), a.val(e))
		}
	case *ssa.ChangeType:
		a.addCopy(a.val(v), a.val(v.X))
	case *ssa.ChangeInterface:
		a.addCopy(a.val(v), a.val(v.X))
	case *ssa.SliceToArrayPointer:
		a.addCopy(a.val(v), a.val(v.X))
	case *ssa.Convert:
		// string <-> []byte / []rune allocate; pointer<->unsafe not used
		if _, ok := v.Type().Underlying().(*types.Slice); ok {
			st := v.Type().Underlying().(*types.Slice)
			a.addObj(a.val(v), a.arrayObj(v, st.Elem(), "convert "+shortType(v.Type())), nil)
		} else if pointerLike(v.Type()) {
			a.addCopy(a.val(v), a.val(v.X))
		}
	case *ssa.Slice:
		switch v.X.Type().Underlying().(type) {
		case *types.Slice:
			a.addCopy(a.val(v), a.val(v.X))
		case *types.Pointer: // pointer to array
			a.addCopy(a.val(v), a.val(v.X))
		}
	case *ssa.MakeInterface:
		box := a.newObj(KBox, v.X.Type(), fmt.Sprintf("BOX(%s@%s)", shortType(v.X.Type()), a.posLabel(v.Pos())))
		box.Site = v
		box.Fn = fn
		if pointerLike(v.X.Type()) {
			box.mem = a.newNode(v.X.Type(), "payload of "+box.Label)
			a.addCopy(box.mem, a.val(v.X))
		}
		a.addObj(a.val(v), box, nil)
	case *ssa.TypeAssert:
		var dst *Node
		if v.CommaOk {
			dst = a.valIdx(v, 0)
		} else {
			dst = a.val(v)
		}
		if dst != nil {
			a.addComplex(a.val(v.X), &cxAssert{dst: dst, typ: v.AssertedType})
		}
	case *ssa.Lookup:
		if _, ok := v.X.Type().Underlying().(*types.Map); ok {
			mt := v.X.Type().Underlying().(*types.Map)
			var dst *Node
			if v.CommaOk {
				dst = a.valIdx(v, 0)
			} else {
				dst = a.val(v)
			}
			if dst != nil {
				a.addComplex(a.val(v.X), &cxMapLoad{dst: dst, typ: mt.Elem()})
			}
		}
	case *ssa.MapUpdate:
		mt := v.Map.Type().Underlying().(*types.Map)
		var vals []*Node
		if pointerLike(mt.Elem()) {
			vn := a.val(v.Value)
			vals = []*Node{vn}
			a.addComplex(a.val(v.Map), &cxMapStore{src: vn, typ: mt.Elem()})
		}
		if pointerLike(mt.Key()) {
			a.addComplex(a.val(v.Map), &cxMapStore{src: a.val(v.Key), typ: mt.Key(), key: true})
		}
		a.effect(v, "mapupdate", []*Node{a.val(v.Map)}, vals, false)
	case *ssa.Range:
		// iterator: modelled at Next
	case *ssa.Next:
		if rng, ok := v.Iter.(*ssa.Range); ok {
			if mt, ok := rng.X.Type().Underlying().(*types.Map); ok {
				if pointerLike(mt.Key()) {
					a.addComplex(a.val(rng.X), &cxMapLoad{dst: a.valIdx(v, 1), typ: mt.Key(), key: true})
				}
				if pointerLike(mt.Elem()) {
					a.addComplex(a.val(rng.X), &cxMapLoad{dst: a.valIdx(v, 2), typ: mt.Elem()})
				}
			}
		}
	case *ssa.MakeClosure:
		f := v.Fn.(*ssa.Function)
		o := a.newObj(KFunc, v.Type(), fmt.Sprintf("CLOSURE(%s@%s)", load.FuncName(f), a.posLabel(v.Pos())))
		o.Func = f
		o.Clos = v
		o.Site = v
		o.Fn = fn
		fns := a.freeNodes(f)
		for i, b := range v.Bindings {
			if i < len(fns) {
				a.addCopy(fns[i], a.val(b))
			}
		}
		a.addObj(a.val(v), o, nil)
	case *ssa.Call:
		a.genCall(fn, v, v.Common(), v)
	case *ssa.Defer:
		a.genCall(fn, v, v.Common(), nil)
	case *ssa.Go:
		a.genCall(fn, v, v.Common(), nil)
	case *ssa.Return:
		rs := a.resultNodes(fn)
		for i, r := range v.Results {
			if i < len(rs) && rs[i] != nil {
				a.addCopy(rs[i], a.val(r))
			}
		}
	case *ssa.Panic:
		a.addCopy(a.panicNode, a.val(v.X))
	case *ssa.Send:
		if pointerLike(v.X.Type()) {
			a.unknown("channel send of pointer-like value in %s", load.FuncName(fn))
		}
	case *ssa.Select:
		a.unknown("select in %s", load.FuncName(fn))
	case *ssa.BinOp, *ssa.If, *ssa.Jump, *ssa.RunDefers, *ssa.DebugRef, *ssa.MultiConvert:
	}
}

func fieldKey(i int) string { return fmt.Sprintf("f%d", i) }
