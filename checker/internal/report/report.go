// Package report holds findings, per-rule statistics, the known-findings
// matcher and the evidence writer (DESIGN.md G-5, G-6, §8).
package report

import (
	"encoding/json"
	"fmt"
	"os"
	"path/filepath"
	"sort"
	"strings"
)

// Finding is one reported construct. Key = Rule + Construct (never a line).
type Finding struct {
	Property  string   `json:"property"`
	Rule      string   `json:"rule"`
	Construct string   `json:"construct"`
	Kind      string   `json:"kind"` // "violation" | "undischarged"
	Message   string   `json:"message"`
	Pos       string   `json:"pos"`
	Witness   []string `json:"witness,omitempty"`
}

func (f Finding) Key() string { return f.Rule + " :: " + f.Construct }

// Rule is the outcome of one rule on one load of the tree.
type Rule struct {
	ID          string    `json:"rule"`
	Doc         string    `json:"doc"`
	Instances   int       `json:"instances"`
	Obligations int       `json:"obligations"`
	Discharged  int       `json:"discharged"`
	Assumed     int       `json:"assumed"`
	Floor       int       `json:"floor"`
	Nontrivial  int       `json:"nontrivial"`
	Samples     []string  `json:"samples,omitempty"`
	Notes       []string  `json:"notes,omitempty"`
	Findings    []Finding `json:"findings,omitempty"`
	Infra       []string  `json:"infra,omitempty"` // infrastructure failures (exit 2)
}

func NewRule(id, doc string, floor int) *Rule {
	return &Rule{ID: id, Doc: doc, Floor: floor}
}

// Oblige records one obligation; ok = discharged.
func (r *Rule) Oblige(ok bool) {
	r.Obligations++
	if ok {
		r.Discharged++
	}
}

func (r *Rule) Sample(format string, a ...interface{}) {
	if len(r.Samples) < 12 {
		r.Samples = append(r.Samples, fmt.Sprintf(format, a...))
	}
}

func (r *Rule) Note(format string, a ...interface{}) {
	r.Notes = append(r.Notes, fmt.Sprintf(format, a...))
}

func (r *Rule) Violation(construct, pos, format string, a ...interface{}) *Finding {
	r.Findings = append(r.Findings, Finding{Rule: r.ID, Construct: construct, Kind: "violation", Pos: pos, Message: fmt.Sprintf(format, a...)})
	return &r.Findings[len(r.Findings)-1]
}

func (r *Rule) Undischarged(construct, pos, format string, a ...interface{}) *Finding {
	r.Findings = append(r.Findings, Finding{Rule: r.ID, Construct: construct, Kind: "undischarged", Pos: pos, Message: fmt.Sprintf(format, a...)})
	return &r.Findings[len(r.Findings)-1]
}

func (r *Rule) InfraFail(format string, a ...interface{}) {
	r.Infra = append(r.Infra, fmt.Sprintf(format, a...))
}

// CheckFloor turns a vacuous pass into an infrastructure failure.
func (r *Rule) CheckFloor() {
	if r.Instances < r.Floor {
		r.InfraFail("rule %s matched %d instances, floor is %d (vacuous pass refused)", r.ID, r.Instances, r.Floor)
	}
}

// Known findings file.
type KnownOpen struct {
	Property  string `json:"property"`
	Rule      string `json:"rule"`
	Construct string `json:"construct"`
	What      string `json:"what"`
}
type KnownFixed struct {
	Property  string `json:"property"`
	Rule      string `json:"rule"`
	Construct string `json:"construct"`
	Commit    string `json:"commit"`
	What      string `json:"what"`
}
type Known struct {
	Open  []KnownOpen  `json:"open"`
	Fixed []KnownFixed `json:"fixed"`
}

func LoadKnown(path string) (*Known, error) {
	b, err := os.ReadFile(path)
	if err != nil {
		return nil, err
	}
	var k Known
	if err := json.Unmarshal(b, &k); err != nil {
		return nil, err
	}
	return &k, nil
}

// Match returns the open entry suppressing f for property prop, if any.
func (k *Known) Match(prop string, f Finding) *KnownOpen {
	for i := range k.Open {
		o := &k.Open[i]
		if o.Property == prop && o.Rule == f.Rule && o.Construct == f.Construct {
			return o
		}
	}
	return nil
}

// Evidence is the file written per property per run.
type Evidence struct {
	PropertyID  string                 `json:"property_id"`
	Tier        string                 `json:"tier"`
	Seed        int                    `json:"seed"`
	Level       string                 `json:"level"`
	Coverage    map[string]interface{} `json:"coverage"`
	Assumptions []string               `json:"assumptions"`
	WallS       float64                `json:"wall_s"`
	Violations  int                    `json:"violations"`
}

func WriteJSON(path string, v interface{}) error {
	if err := os.MkdirAll(filepath.Dir(path), 0o755); err != nil {
		return err
	}
	b, err := json.MarshalIndent(v, "", " ")
	if err != nil {
		return err
	}
	tmp := path + ".tmp"
	if err := os.WriteFile(tmp, append(b, '\n'), 0o644); err != nil {
		return err
	}
	return os.Rename(tmp, path)
}

// SortFindings orders findings deterministically.
func SortFindings(fs []Finding) {
	sort.SliceStable(fs, func(i, j int) bool {
		if fs[i].Rule != fs[j].Rule {
			return fs[i].Rule < fs[j].Rule
		}
		return fs[i].Construct < fs[j].Construct
	})
}

// Slug makes a file-name-safe identifier.
func Slug(s string) string {
	var b strings.Builder
	for _, c := range s {
		switch {
		case c >= 'a' && c <= 'z', c >= 'A' && c <= 'Z', c >= '0' && c <= '9', c == '-', c == '_':
			b.WriteRune(c)
		default:
			b.WriteByte('_')
		}
	}
	out := b.String()
	if len(out) > 80 {
		out = out[:80]
	}
	return out
}
